#!/bin/bash
# Offline bootstrap of the checker environment: /verif/.venv = overlay of /venv
# (numpy, scipy, optyx deps) + z3-solver from the offline wheelhouse.
set -e
cd "$(dirname "$0")"
VENV=/verif/.venv
exec 9>/tmp/.verif-setup.lock
flock 9
if [ ! -x "$VENV/bin/python" ] || ! "$VENV/bin/python" -c "import z3, numpy, scipy" 2>/dev/null; then
  rm -rf "$VENV"
  /venv/bin/python -m venv "$VENV"
  SP=$("$VENV/bin/python" -c "import sysconfig; print(sysconfig.get_paths()['purelib'])")
  printf "import site; site.addsitedir('/venv/lib/python3.12/site-packages')\n" > "$SP/zz_overlay.pth"
  PIP_NO_INDEX=1 "$VENV/bin/python" -m pip install -q --no-index --find-links /opt/veriftools/wheels z3-solver >/dev/null
  "$VENV/bin/python" -c "import z3, numpy, scipy; print('verif venv ready: z3', z3.get_version_string())"
fi
