"""C20 - a failed or interrupted solve leaves the process and the problem intact.

Fault schedule (exhaustive product): WHERE x EXCEPTION CLASS x METHOD, where
WHERE = solver entry before any callback; after the k-th objective / gradient /
constraint / constraint-Jacobian / Hessian callback (k <= 3); inside
compile_hessian; inside compile_jacobian (cache construction); inside LP
extraction; inside linprog; and EXCEPTION in {ValueError, FloatingPointError,
MemoryError, KeyboardInterrupt}.  The fault is injected through the solver stub
(S4/S5) or by wrapping the optyx function from outside.  After the fault:
  (1) the call returned a FAILED solution or propagated the exception;
  (2) warnings.showwarning is the pre-call object and sys.getrecursionlimit()
      is unchanged (also for increased_recursion_limit with a raising body);
  (3) the next solve with a benign stub hands the solver arguments that z3
      proves equal, for all x and all symbolic data, to those of an untouched
      copy of the problem (fun, jac, hess, constraint funs / jacs, bounds, x0)."""
from __future__ import annotations

import itertools
import sys
import warnings

import numpy as np

from vf.engine import stubs
from vf.props import common as K
from vf.props import c13
from vf.props import lpmodels as LM
from vf.props.common import harness_error, inconclusive, proved, violation

ID = "C20"
LEVEL = "fault_enumeration"
ITEM_BUDGET_S = {"quick": 300, "thorough": 900}
QT = {"quick": 10000, "thorough": 30000}
_TIER = "quick"
EXCS = ["ValueError", "FloatingPointError", "MemoryError", "KeyboardInterrupt"]
METHODS = ["auto", "SLSQP", "trust-constr", "L-BFGS-B", "highs"]
WHERES = (["entry"] + [f"{t}@{k}" for t in ("fun", "jac") for k in (1, 2, 3)] + [f"{t}@{k}" for t in ("con", "conjac", "hess") for k in (1, 2)]
          + ["compile_hessian", "compile_jacobian", "compile_expression", "lp_extract", "linprog"]
          # the failing attempt passes a per-call keyword (callback=) that the library rejects by raising
          + ["kwarg"]
          # the fault is raised INSIDE the compiled callable (below optyx's own wrappers), at its k-th call
          + [f"in:{t}@{k}" for t in ("compile_expression", "compile_jacobian", "compile_hessian") for k in (1, 2)])


def install_inner_fault(where, exc_name, patches, injected):
    """patch compile_* so that the functions it returns raise once, at the k-th call over all of them"""
    import optyx.core.autodiff as A
    import optyx.core.compiler as C
    target, _, k = where[3:].partition("@")
    k = int(k)
    mod = {"compile_expression": C, "compile_jacobian": A, "compile_hessian": A}[target]
    orig = getattr(mod, target)
    cnt = {"n": 0}

    def wrapping(*a, **kw):
        f = orig(*a, **kw)

        def g(x):
            cnt["n"] += 1
            if cnt["n"] == k and not injected["n"]:
                injected["n"] += 1
                raise make_exc(exc_name)
            return f(x)
        return g
    patches.append((mod, target, orig))
    setattr(mod, target, wrapping)

META = dict(
    rule="one case = (model, where, exception class, method); fault_enumeration over the full product; the post-fault argument equivalence is a z3 validity query over x and the symbolic data",
    bounds={
        "quick": "4 models (NLP with two constraints, unconstrained NLP maximise, LP minimise, LP maximise) x 26 fault locations (6 of them inside the compiled callables) x 4 exception classes x 5 methods; callbacks k <= 3",
        "thorough": "same product (finite, fully enumerated in both tiers) plus the real-SciPy validation of the stub",
    },
    outside=["faults that corrupt memory or kill the interpreter", "asynchronous signals delivered between two bytecodes of the restore sequence itself", "rounding (S7)"],
    assumptions=["S4/S5: an exception raised by a callback propagates out of scipy.optimize.minimize / linprog (validated against the real SciPy in the thorough tier)", "S1", "S2", "S7"],
    exhaustive_within_bounds=True,
)


def worker_init(tier, seed):
    global _TIER
    _TIER = tier


def models():
    X, Y = ("var", "x"), ("var", "y")
    S = lambda n: ("sym", n)  # noqa: E731
    sq = lambda e: ("bin", "*", e, e)  # noqa: E731
    return [
        dict(tag="nlp2", obj=("bin", "+", sq(("bin", "-", X, ("num", S("c1")))), ("un", "exp", Y)), sense="min",
             cons=[("ge", ("bin", "+", X, Y), ("num", S("r0"))), ("le", ("bin", "*", X, Y), ("num", S("r1")))], bounds={"x": (S("lx"), S("ux"))}),
        dict(tag="nlp0", obj=("bin", "+", sq(X), sq(("bin", "-", Y, ("num", S("c1"))))), sense="max", cons=[], bounds={"y": (0.0, None)}),
        dict(tag="lp", obj=("bin", "+", ("bin", "*", ("const", S("c1")), X), Y), sense="min", cons=[("ge", ("bin", "+", X, Y), ("num", S("r0")))], bounds={"x": (0.0, S("ux")), "y": (0.0, None)}),
        dict(tag="lp-max", obj=("bin", "+", ("bin", "+", ("bin", "*", ("const", S("c1")), X), Y), ("num", S("c0"))), sense="max",
             cons=[("le", ("bin", "+", X, Y), ("num", S("r0"))), ("eq", ("bin", "-", X, Y), ("num", S("r1")))], bounds={"x": (0.0, S("ux")), "y": (0.0, None)}),
    ]


class KwMinimize(stubs.MinimizeStub):
    """a library that raises when it is handed a callback (per-call keyword of the failing attempt)"""

    def __init__(self, exc):
        super().__init__("fixed")
        self.exc_name, self.injected = exc, False

    def __call__(self, fun, x0, **kw):
        if kw.get("callback") is not None:
            self.injected = True
            self.calls.append(dict(fun=fun, x0=x0, **kw))
            raise make_exc(self.exc_name)
        return super().__call__(fun, x0, **kw)


class KwLinprog(stubs.LinprogStub):
    def __init__(self, exc):
        super().__init__("fixed")
        self.exc_name, self.injected = exc, False

    def __call__(self, c, **kw):
        if kw.get("callback") is not None:
            self.injected = True
            self.calls.append(dict(c=c, **kw))
            raise make_exc(self.exc_name)
        return super().__call__(c, **kw)


def plain_args(calls_m, calls_l):
    """the non-callable, non-array arguments of the recorded library calls"""
    out = []
    for c in calls_m:
        out.append(("minimize", c.get("method"), c.get("callback") is not None, repr(sorted((c.get("options") or {}).items())), tuple(sorted((c.get("kw") or {}).keys()))))
    for c in calls_l:
        out.append(("linprog", c.get("method"), tuple(sorted((c.get("kw") or {}).keys()))))
    return out


def make_exc(name):
    return {"ValueError": ValueError, "FloatingPointError": FloatingPointError, "MemoryError": MemoryError, "KeyboardInterrupt": KeyboardInterrupt}[name](f"injected {name}")


class FaultyMinimize(stubs.MinimizeStub):
    """drives the callbacks like an optimiser would (rounds of fun, jac, every
    constraint's fun and jac, hess) and raises after the k-th call of one kind"""

    def __init__(self, where, exc):
        super().__init__("fixed")
        self.where = where
        self.exc_name = exc
        self.injected = False

    def __call__(self, fun, x0, **kw):
        self.calls.append(dict(fun=fun, x0=x0, **kw))
        kind, _, k = self.where.partition("@")
        if kind == "entry":
            self.injected = True
            raise make_exc(self.exc_name)
        k = int(k or 0)
        x = np.array(list(x0), dtype=object)
        count = {"fun": 0, "jac": 0, "con": 0, "conjac": 0, "hess": 0}

        def tick(t):
            count[t] += 1
            if t == kind and count[t] == k:
                self.injected = True
                raise make_exc(self.exc_name)
        for _round in range(3):
            fun(x)
            tick("fun")
            if kw.get("jac") is not None:
                kw["jac"](x)
                tick("jac")
            for c in (kw.get("constraints") or ()):
                c["fun"](x)
                tick("con")
                c["jac"](x)
                tick("conjac")
            if kw.get("hess") is not None:
                kw["hess"](x)
                tick("hess")
        return stubs.Reply(x=x, fun=fun(x), success=False, message="stub", nit=0, status=9)


def run_case(model, where, exc_name, method, planted=False):
    from optyx.solution import SolverStatus
    import optyx.core.autodiff as A
    import optyx.core.compiler as C
    import optyx.analysis as An
    import optyx.solvers.scipy_solver as ss
    from optyx.core.autodiff import increased_recursion_limit
    res = []
    names = LM.model_names(model)
    allv = names["vars"] + names["syms"] + names["params"]
    val = K.sym_val(allv)
    tag = f"{model['tag']}/{where}/{exc_name}/{method}"
    payload = dict(kind="fault", model=K.enc(model), where=where, exc=exc_name, method=method)
    sig0 = f"{where.split('@')[0]}|{exc_name}"
    if where.startswith("in:") and method == "highs":
        return [dict(status="conformance", what=f"{tag}: no compiled callables on the LP route", points=0)]

    def path():
        p, b = LM.build_model(model, val)
        ref_p, _ = LM.build_model(model, val)      # the untouched copy
        show0, lim0 = warnings.showwarning, sys.getrecursionlimit()
        ms = FaultyMinimize(where, exc_name)
        ls = stubs.LinprogStub("raise", exc=make_exc(exc_name)) if where == "linprog" else stubs.LinprogStub("fixed")
        skw = {}
        if where == "kwarg":
            ms, ls = KwMinimize(exc_name), KwLinprog(exc_name)
            skw = dict(callback=lambda *a, **k: None)
        patches = []
        injected = {"n": 0}

        def raiser(*a, **k):
            injected["n"] += 1
            raise make_exc(exc_name)
        if where == "compile_hessian":
            patches.append((A, "compile_hessian", A.compile_hessian))
            A.compile_hessian = raiser
        elif where == "compile_jacobian":
            patches.append((A, "compile_jacobian", A.compile_jacobian))
            A.compile_jacobian = raiser
        elif where == "compile_expression":
            patches.append((C, "compile_expression", C.compile_expression))
            C.compile_expression = raiser
        elif where == "lp_extract":
            patches.append((An.LinearProgramExtractor, "extract", An.LinearProgramExtractor.extract))
            An.LinearProgramExtractor.extract = raiser
        elif where.startswith("in:"):
            install_inner_fault(where, exc_name, patches, injected)
        outcome = None
        try:
            with stubs.patched(ms, ls), warnings.catch_warnings():
                warnings.simplefilter("ignore")
                show_in = warnings.showwarning
                try:
                    sol = p.solve(method=method, **skw)
                    outcome = ("returned", sol.status.name)
                except BaseException as e:  # noqa: BLE001
                    if type(e).__name__ in ("PathAbort", "ExplorationBudget", "ItemTimeout", "SymbolicConcretisation"):
                        raise
                    chain, cur = [], e
                    while cur is not None and len(chain) < 6:
                        chain.append(type(cur).__name__)
                        cur = cur.__cause__ or cur.__context__
                    outcome = ("raised", "<-".join(chain))
                show_after = warnings.showwarning
        finally:
            for obj, name, orig in patches:
                setattr(obj, name, orig)
        happened = ms.injected or injected["n"] > 0 or (where == "linprog" and len(ls.calls) > 0) or getattr(ls, "injected", False)
        state = dict(show_restored=(show_after is show_in), limit=(sys.getrecursionlimit() == lim0), outcome=outcome, happened=happened)
        # the next solve, benign stubs, against the untouched copy
        a = c13.capture(p, method)
        bb = c13.capture(ref_p, method)
        cols = [v.name for v in ref_p.variables]
        state["plain"] = (plain_args(a[0], a[1]), plain_args(bb[0], bb[1]))
        return state, a, bb, cols

    for dec, labels, pc, (state, a, bb, cols) in K.explore(path, max_paths=300):
        if not state["happened"]:
            res.append(dict(status="conformance", what=f"{tag}: fault location not reached by this method", points=0))
            continue
        kind, name = state["outcome"]
        # propagation may wrap the exception (raise ... from e): the injected one must be in the cause chain
        ok1 = (kind == "raised" and exc_name in name.split("<-")) or (kind == "returned" and name == "FAILED")
        if planted:
            ok1 = False
        res.append(proved(f"{tag}: {kind} {name}") if ok1 else
                   violation(f"C20|outcome|{sig0}|{kind}:{name}", f"{tag}: after the fault the call {kind} {name} (expected FAILED or the injected exception)", payload))
        if not state["show_restored"]:
            res.append(violation(f"C20|showwarning-not-restored|{sig0}", f"{tag}: warnings.showwarning was not restored", payload))
        elif not state["limit"]:
            res.append(violation(f"C20|recursionlimit|{sig0}", f"{tag}: recursion limit changed", payload))
        else:
            res.append(proved(f"{tag}: showwarning and recursion limit restored"))
        if state["plain"][0] != state["plain"][1]:
            res.append(violation(f"C20|next-solve-arguments|{sig0}", f"{tag}: the next solve hands the library {state['plain'][0]}, an untouched copy {state['plain'][1]}", payload))
        res += c13.compare_calls(a, bb, cols, val, f"{tag}: next solve == untouched copy", f"C20|next-solve|{sig0}", payload, allv, pc)
    return res


def recursion_limit_cases():
    from optyx.core.autodiff import increased_recursion_limit
    out = []
    for exc_name in EXCS + [None]:
        lim0 = sys.getrecursionlimit()
        try:
            with increased_recursion_limit(lim0 + 777):
                inside = sys.getrecursionlimit()
                if exc_name:
                    raise make_exc(exc_name)
        except BaseException as e:  # noqa: BLE001
            if exc_name is None or type(e).__name__ != exc_name:
                out.append(harness_error(f"unexpected {e!r}"))
        if sys.getrecursionlimit() != lim0 or inside != lim0 + 777:
            out.append(violation(f"C20|increased_recursion_limit|{exc_name}", f"recursion limit {sys.getrecursionlimit()} after a body raising {exc_name} (was {lim0})",
                                 dict(kind="reclimit", exc=exc_name)))
            sys.setrecursionlimit(lim0)
        else:
            out.append(proved(f"increased_recursion_limit restores after {exc_name}"))
    return out


def items(tier, seed):
    its = [("twin", 0), ("reclimit", 0)]
    cases = []
    for m in models():
        for where in WHERES:
            for exc in EXCS:
                for method in METHODS:
                    cases.append((m, where, exc, method))
    for ch in K.chunks(cases, 20):
        its.append(("cases", ch))
    if tier == "thorough":
        its.append(("real-scipy", 0))
    return its


def check(item):
    kind, payload = item
    if kind == "cases":
        out = []
        for c in payload:
            try:
                out += run_case(*c)
            except Exception as e:  # noqa: BLE001
                import traceback
                out.append(harness_error(f"{type(e).__name__}: {e}", item=f"{c[0]['tag']}/{c[1:]}", tb=traceback.format_exc()[-1500:]))
        return out
    if kind == "reclimit":
        return recursion_limit_cases()
    if kind == "twin":
        rr = run_case(models()[0], "jac@2", "ValueError", "SLSQP", planted=True)
        # and a really broken restore must be seen: simulate by leaving a foreign showwarning behind
        return [dict(status="conformance", what="twin refuted", points=1) if any(x["status"] == "violation" for x in rr) else harness_error("twin not refuted")]
    if kind == "real-scipy":
        return real_scipy()
    raise ValueError(kind)


def real_scipy():
    """stub validation (not deciding): with the REAL scipy an exception raised by the k-th callback propagates out of minimize"""
    import subprocess
    p = subprocess.run([sys.executable, "-m", "vf.props.c20_real"], capture_output=True, text=True, timeout=900)
    last = (p.stdout.strip().splitlines() or [""])[-1]
    if p.returncode != 0:
        return [harness_error(f"real-SciPy validation failed: {last} {p.stderr[-300:]}")]
    return [dict(status="conformance", what=f"real SciPy: {last}", points=int(last.split()[0]) if last.split() and last.split()[0].isdigit() else 0)]


def replay(payload):
    """concrete floats, same fault schedule, real code"""
    import types
    import scipy.optimize
    import optyx.solvers.scipy_solver as ss
    import optyx.core.autodiff as A
    import optyx.core.compiler as C
    import optyx.analysis as An
    if payload["kind"] == "reclimit":
        r = recursion_limit_cases()
        bad = [x for x in r if x["status"] == "violation"]
        return bool(bad), bad[0]["what"] if bad else "fine"
    model = K.dec(payload["model"])
    where, exc_name, method = payload["where"], payload["exc"], payload["method"]
    names = LM.model_names(model)
    val = {n: 0.7 + 0.1 * i for i, n in enumerate(names["vars"] + names["syms"] + names["params"])}
    for k in val:
        if k.startswith("l"):
            val[k] = -1.0
        if k.startswith("u"):
            val[k] = 3.0
    p, b = LM.build_model(model, val)
    ref_p, _ = LM.build_model(model, val)
    show0, lim0 = warnings.showwarning, sys.getrecursionlimit()
    ms = FaultyMinimize(where, exc_name)
    ls = stubs.LinprogStub("raise", exc=make_exc(exc_name)) if where == "linprog" else stubs.LinprogStub("fixed")
    skw = {}
    if where == "kwarg":
        ms, ls = KwMinimize(exc_name), KwLinprog(exc_name)
        skw = dict(callback=lambda *a, **k: None)
    patches = []

    def raiser(*a, **k):
        raise make_exc(exc_name)
    tgt = {"compile_hessian": (A, "compile_hessian"), "compile_jacobian": (A, "compile_jacobian"), "compile_expression": (C, "compile_expression"), "lp_extract": (An.LinearProgramExtractor, "extract")}.get(where)
    if tgt:
        patches.append((tgt[0], tgt[1], getattr(*tgt)))
        setattr(tgt[0], tgt[1], raiser)
    if where.startswith("in:"):
        install_inner_fault(where, exc_name, patches, {"n": 0})
    outcome = None
    try:
        with stubs.patched(ms, ls):
            try:
                with warnings.catch_warnings():
                    warnings.simplefilter("ignore")
                    inner = warnings.showwarning
                    try:
                        sol = p.solve(method=method, **skw)
                        outcome = ("returned", sol.status.name)
                    except BaseException as e:  # noqa: BLE001
                        chain, cur = [], e
                        while cur is not None and len(chain) < 6:
                            chain.append(type(cur).__name__)
                            cur = cur.__cause__ or cur.__context__
                        outcome = ("raised", "<-".join(chain))
                    after = warnings.showwarning
            finally:
                pass
    finally:
        for obj, name, orig in patches:
            setattr(obj, name, orig)
    if after is not inner:
        return True, f"warnings.showwarning not restored after {exc_name} at {where} ({method})"
    if sys.getrecursionlimit() != lim0:
        return True, "recursion limit changed"
    if not ((outcome[0] == "raised" and exc_name in outcome[1].split("<-")) or outcome == ("returned", "FAILED")):
        return True, f"after {exc_name} at {where} ({method}) the call {outcome[0]} {outcome[1]}"
    a, bb = c13.capture(p, method), c13.capture(ref_p, method)
    (ma, la, ea), (mb, lb, eb) = a, bb
    if plain_args(ma, la) != plain_args(mb, lb):
        return True, f"after {exc_name} at {where} ({method}) the next solve hands the library {plain_args(ma, la)}, an untouched copy {plain_args(mb, lb)}"
    if type(ea) is not type(eb) or len(ma) != len(mb) or len(la) != len(lb):
        return True, f"next solve differs from an untouched copy: {ea!r}/{len(ma)}/{len(la)} vs {eb!r}/{len(mb)}/{len(lb)}"
    for ca, cb in zip(la, lb):
        for key in ("c", "A_ub", "b_ub", "A_eq", "b_eq"):
            u, v = ca.get(key), cb.get(key)
            if (u is None) != (v is None) or (u is not None and not np.allclose(np.asarray(u, dtype=float), np.asarray(v, dtype=float), rtol=0, atol=1e-12)):
                return True, f"after {exc_name} at {where} ({method}) the next solve passes {key} = {None if u is None else np.asarray(u, dtype=float).tolist()}, an untouched copy passes {None if v is None else np.asarray(v, dtype=float).tolist()}"
        if ca.get("bounds") != cb.get("bounds") or ca.get("method") != cb.get("method"):
            return True, f"after {exc_name} at {where} ({method}) the next solve passes other bounds / method than an untouched copy"
    for ca, cb in zip(ma, mb):
        x = np.array([0.4 + 0.3 * i for i in range(len(ca["x0"]))])
        if ca["method"] != cb["method"] or not K.close(float(ca["fun"](x)), float(cb["fun"](x)), 1e-9, 1e-12) or (ca["hess"] is None) != (cb["hess"] is None):
            return True, "next solve hands different callables to the solver than an untouched copy"
        if not np.allclose(np.asarray(ca["jac"](x), dtype=float), np.asarray(cb["jac"](x), dtype=float)):
            return True, "next solve: gradient differs from an untouched copy"
        if ca["hess"] is not None:
            try:
                ha = np.asarray(ca["hess"](x), dtype=float)
            except Exception as e:  # noqa: BLE001
                return True, f"after {exc_name} at {where} ({method}) the next solve's Hessian callable raises {type(e).__name__}: {e}"
            if not np.allclose(ha, np.asarray(cb["hess"](x), dtype=float)):
                return True, "next solve: Hessian differs from an untouched copy"
        for da, db in zip(ca.get("constraints") or [], cb.get("constraints") or []):
            try:
                if not K.close(float(da["fun"](x)), float(db["fun"](x)), 1e-9, 1e-12) or not np.allclose(np.asarray(da["jac"](x), dtype=float), np.asarray(db["jac"](x), dtype=float)):
                    return True, "next solve: constraint callables differ from an untouched copy"
            except Exception as e:  # noqa: BLE001
                return True, f"next solve: a constraint callable raises {type(e).__name__}: {e}"
    return False, "no difference reproduced"
