"""C12 - parameter updates are honoured by every later evaluation and solve.

Histories over {p_i.set(v) with a FRESH symbolic value, evaluate, call of a
callable compiled at the start of the history, fresh compile + call, compiled
gradient / Jacobian / Hessian call, solve(m) through the recording stub S4}.
After every observation z3 proves, for all points x and all parameter values
ever set, that the observation equals the same observation of the reference
formula with each parameter replaced by its CURRENT value (i.e. a freshly built
model with Constant(current p_i)).  For a solve the recorded callables and data
(fun, jac, hess, constraint funs/jacs) are the observation; a model containing a
parameter must never be frozen into LP data."""
from __future__ import annotations

import itertools

import numpy as np

from vf.engine import stubs
from vf.engine.recipes import Ref
from vf.props import common as K
from vf.props import lpmodels as LM
from vf.props import solving as SV
from vf.props.common import harness_error, inconclusive, proved, violation

ID = "C12"
LEVEL = "model_checking"
ITEM_BUDGET_S = {"quick": 400, "thorough": 1500}
QT = {"quick": 15000, "thorough": 30000}
_TIER = "quick"
X, Y = ("var", "x"), ("var", "y")
P1, P2 = ("param", "p1"), ("param", "p2")
OPS = ["set1", "set2", "eval", "call0", "compile", "jac0", "hess0", "solve:auto", "solve:SLSQP", "solve:trust-constr", "solve:L-BFGS-B"]

META = dict(
    rule="one case = (model, operation history, observation); the solver quantifies over the point and over every value ever given to a parameter",
    bounds={
        "quick": "9 models (the elements of a VectorParameter used through list operands and updated with VectorParameter.set, parameter as coefficient, additive constant, constraint rhs, inside a Hessian entry / exp, inside vector elements, linear-looking), histories of length <= 3 over 11 operations (exhaustive: 11+121+1331 per model)",
        "thorough": "length <= 4 (exhaustive)",
    },
    outside=["MatrixParameter (a plain array holder, not an expression node)", "array-valued Parameter", "the solver reply (fixed non-branching reply; reply mapping is C06/C07)", "rounding (S7)"],
    assumptions=["S4 in 'fixed' mode", "S1", "S2", "S6", "S7"],
    exhaustive_within_bounds=True,
)


def worker_init(tier, seed):
    global _TIER
    _TIER = tier


def models():
    sq = lambda e: ("bin", "*", e, e)  # noqa: E731
    v2 = ("vec", "v", 2)
    return [
        dict(tag="coef+const", obj=("bin", "+", ("bin", "+", ("bin", "*", P1, sq(X)), ("bin", "*", P2, Y)), sq(("bin", "-", X, P2))), sense="min",
             cons=[("ge", ("bin", "+", X, Y), P1)], bounds={"x": (0.0, None)}),
        dict(tag="rhs-only", obj=("bin", "+", sq(X), sq(Y)), sense="min", cons=[("ge", X, P1), ("le", ("bin", "*", X, Y), P2)], bounds={}),
        dict(tag="hess-entry", obj=("bin", "+", ("un", "exp", ("bin", "*", P1, X)), ("bin", "*", ("bin", "*", P2, X), Y)), sense="max", cons=[], bounds={"x": (-1.0, 1.0), "y": (-1.0, 1.0)}),
        dict(tag="vector-elements", obj=("vsum", ("vexpr", [("bin", "*", P1, sq(("velem", v2, 0))), ("bin", "+", ("velem", v2, 1), P2)])), sense="min",
             cons=[("eq", ("lincomb", [1.0, 2.0], ("vexpr", [("bin", "*", P2, ("velem", v2, 0)), ("velem", v2, 1)])), ("num", 1.0))], bounds={}),
        dict(tag="unary-of-param", obj=("bin", "+", ("bin", "*", ("un", "exp", ("un", "neg", P1)), sq(X)), ("bin", "*", ("un", "sqrt", P2), Y)), sense="min",
             cons=[("le", ("bin", "+", X, Y), ("un", "sin", P1))], bounds={}),
        dict(tag="param-exponent", obj=("bin", "+", ("bin", "**", X, P1), ("bin", "**", ("bin", "*", X, Y), P2)), sense="min", cons=[], bounds={"x": (0.5, 3.0), "y": (0.5, 3.0)}),
        # constraints WITHOUT decision variables (a budget between two parameters, a parameter against a number)
        dict(tag="parameter-only-constraints", obj=("bin", "+", sq(("bin", "-", X, P1)), sq(Y)), sense="min",
             cons=[("le", P1, P2), ("ge", ("bin", "+", X, Y), ("num", 1.0)), ("ge", ("bin", "*", P2, ("num", 2.0)), ("num", 1.0))], bounds={}),
        # the parameters are the elements of ONE VectorParameter, used through a Python list of its elements and
        # updated with VectorParameter.set(array)
        dict(tag="vector-parameter", vparam=["p1", "p2"],
             obj=("bin", "+", ("vsum", ("vbin", "*", ("vbin", "*", v2, v2), ("elst", [P1, P2]))), ("vsum", ("vrbin", "-", ("elst", [P2, P1]), v2))), sense="min",
             cons=[("ge", ("vsum", ("vbin", "*", v2, ("elst", [P1, P2]))), ("num", 1.0))], bounds={}),
        dict(tag="linear-looking", obj=("bin", "+", ("bin", "*", P1, X), ("bin", "*", P2, Y)), sense="min", cons=[("le", ("bin", "+", X, Y), P1), ("ge", X, ("num", 0.0))], bounds={"y": (0.0, 5.0)}),
    ]


def items(tier, seed):
    L = 3 if tier == "quick" else 4
    its = [("twin", 0)]
    for m in models():
        hs = []
        for l in range(1, L + 1):
            hs += list(itertools.product(OPS, repeat=l))
        # a history is only interesting if it ends with an observation
        hs = [h for h in hs if not h[-1].startswith("set")]
        for ch in K.chunks(hs, 60):
            its.append(("hist", (m, ch, False)))
        # the same histories with the deep-tree (iterative) algorithms forced from outside:
        # every compile / gradient in the history goes through the iterative builders
        short = [h for h in hs if len(h) <= (2 if tier == "quick" else 3)]
        for ch in K.chunks(short, 60):
            its.append(("hist", (m, ch, True)))
    return its


def run_history(model, hist, planted=False, deep=False):
    """explores the history: the code's own tests on parameter VALUES (p == 0, p == 1 in the simplifiers, if any)
    become branches, so a history is also run with the parameters initially equal to 0 and to 1; every
    obligation is discharged under the path's final condition"""
    out = []

    def path():
        K.DEFER = []
        try:
            res = _history_once(model, hist, planted, deep)
            return res, K.DEFER
        finally:
            K.DEFER = None

    from vf.engine.sym import ExplorationBudget
    try:
        for dec, labels, pc, (res, deferred) in K.explore(path, max_paths=300, clear_caches=False):
            out += [r for r in res if r.get("status") != "deferred"]
            rr = K.discharge_deferred(deferred, pc)
            if deep:
                for r in rr:
                    r["what"] = "[iterative builders] " + r["what"]
                    if r.get("sig"):
                        r["sig"] += "|deep"
            out += rr
    except ExplorationBudget as e:
        out.append(inconclusive(f"path budget for history {model['tag']}:{'>'.join(hist)}: {e}"))
    return out


def _history_once(model, hist, planted=False, deep=False):
    """executes one history on the real code; returns result records (obligations deferred to the path's end)"""
    if deep:
        from vf.props import c15
        old = c15.set_thresholds(0)
        try:
            return _history_once(model, hist, planted, False)
        finally:
            c15.restore_thresholds(old)
    from optyx.core import autodiff as A
    from optyx.core import compiler as C
    from vf.engine import npshim, smt
    from vf.engine.sym import SReal
    import warnings
    res = []
    npshim.clear_optyx_caches()
    names = LM.model_names(model)
    cur = {"p1": SReal.var("p1_0"), "p2": SReal.var("p2_0")}
    val = K.sym_val(names["vars"] + names["syms"])
    val.update(cur)
    p, b = LM.build_model(model, val)
    cols = [v.name for v in p.variables]
    V = list(p.variables)
    x = np.empty(len(cols), dtype=object)
    for i, n in enumerate(cols):
        x[i] = val[n]
    point = {n: val[n] for n in cols}
    obj = p.objective
    f0 = C.compile_expression(obj, V)
    j0 = A.compile_jacobian([obj] + [c.expr for c in p.constraints], V)
    h0 = A.compile_hessian(obj, V)
    ce0 = C.CompiledExpression(obj, V)
    nset = {"p1": 0, "p2": 0}
    allv = list(val.keys())
    htag = f"{model['tag']}:{'>'.join(hist)}"
    pl = 1.0 if planted else 0.0

    def current():
        v = dict(val)
        v.update(cur)
        return v

    def oracle_value():
        r = Ref(current(), 0)
        return r.S(model["obj"]), r.dom

    def oracle_rows():
        rows, dom = [], []
        recs = [model["obj"]]
        for w in cols:
            r = Ref(K.dual_val(current(), w), 1)
            rows.append(K.tangent(r.S(model["obj"])))
            dom += r.dom
        out = [rows]
        for kind, l, rr in model["cons"]:
            row = []
            for w in cols:
                r = Ref(K.dual_val(current(), w), 1)
                row.append(K.tangent(r.S(l) - r.S(rr)))
                dom += r.dom
            out.append(row)
        return out, dom

    def decide(claims, dom, what, ob):
        payload = dict(kind="hist", model=K.enc(model), hist=list(hist), ob=ob)
        names_all = allv + [f"p{i}_{k}" for i in (1, 2) for k in range(len(hist) + 1)]
        sig = f"C12|{ob}|{model['tag']}|after-set={'y' if any(h.startswith('set') for h in hist) else 'n'}"
        res.append(K.decide(claims, [], dom, f"{htag}: {what}", sig, payload, names_all, QT[_TIER]))

    for step, op in enumerate(hist):
        if op in ("set1", "set2"):
            k = "p1" if op == "set1" else "p2"
            nset[k] += 1
            cur[k] = SReal.var(f"{k}_{nset[k]}")
            if model.get("vparam"):
                arr = np.empty(len(model["vparam"]), dtype=object)
                for i_, n_ in enumerate(model["vparam"]):
                    arr[i_] = cur[n_]
                b.vparam.set(arr)
            else:
                b.params[k].set(cur[k])
            continue
        if op == "eval":
            o, dom = oracle_value()
            decide([smt.eq(obj.evaluate(point), o + pl)], dom, "evaluate == formula at current parameters", "evaluate")
            for c, (kind, l, rr) in zip(p.constraints, model["cons"]):
                r = Ref(current(), 0)
                decide([smt.eq(c.evaluate(point), r.S(l) - r.S(rr))], r.dom, "constraint.evaluate at current parameters", "constraint-evaluate")
        elif op == "call0":
            o, dom = oracle_value()
            decide([smt.eq(f0(x), o + pl), smt.eq(ce0.value(x), o + pl)], dom, "callable compiled before the updates reads current parameters", "compiled-early")
        elif op == "compile":
            o, dom = oracle_value()
            decide([smt.eq(C.compile_expression(obj, V)(x), o + pl)], dom, "fresh compile reads current parameters", "compiled-late")
            rows, dom = oracle_rows()
            g = np.asarray(C.compile_gradient(obj, V)(x)).reshape(-1)
            decide([smt.eq(a, b_ + pl) for a, b_ in zip(g, rows[0])], dom, "fresh compile_gradient at current parameters", "gradient-late")
        elif op == "jac0":
            rows, dom = oracle_rows()
            J = np.asarray(j0(x))
            claims = [smt.eq(J[i, j], rows[i][j] + pl) for i in range(len(rows)) for j in range(len(cols))]
            decide(claims, dom, "Jacobian compiled before the updates reads current parameters", "jacobian-early")
        elif op == "hess0":
            H = np.asarray(h0(x))
            claims, dom = [], []
            for i, wi in enumerate(cols):
                for j, wj in enumerate(cols):
                    r = Ref(K.dual_val(current(), wi, wj), 2)
                    claims.append(smt.eq(H[i, j], K.second(r.S(model["obj"])) + pl))
                    dom = r.dom
            decide(claims, dom, "Hessian compiled before the updates reads current parameters", "hessian-early")
        elif op.startswith("solve:"):
            method = op.split(":")[1]
            ms, ls = stubs.MinimizeStub("fixed"), stubs.LinprogStub("fixed")
            with stubs.patched(ms, ls), warnings.catch_warnings():
                warnings.simplefilter("ignore")
                try:
                    p.solve(method=method)
                except Exception as e:  # noqa: BLE001
                    res.append(violation(f"C12|solve-raises|{model['tag']}", f"{htag}: solve raises {e}", dict(kind="raises", model=K.enc(model), hist=list(hist))))
                    continue
            if ls.calls:
                res.append(violation(f"C12|frozen-into-LP|{model['tag']}", f"{htag}: a model with parameters was handed to linprog (values frozen into LP data)",
                                     dict(kind="lp", model=K.enc(model), hist=list(hist))))
                continue
            if not ms.calls:
                res.append(harness_error(f"{htag}: no solver call"))
                continue
            payload = dict(kind="hist", model=K.enc(model), hist=list(hist), ob="solve")
            names_all = allv + [f"p{i}_{k}" for i in (1, 2) for k in range(len(hist) + 1)]
            # (the signature says whether this is a RE-solve after an update: a solve, then a set, then this solve)
            first_solve = next((i for i, h in enumerate(hist[:step]) if h.startswith("solve")), None)
            resolve = first_solve is not None and any(h.startswith("set") for h in hist[first_solve:step])
            rr = SV.minimize_call_obligations(ms.calls[0], model, cols, current(), [], htag, f"{model['tag']}|after-set={'y' if any(h.startswith('set') for h in hist[:step]) else 'n'}" + ("|re-solve" if resolve else ""),
                                              method, "C12", QT[_TIER], names_all, payload, planted=planted, check_x0=False)
            res += rr
    return res


def check(item):
    kind, payload = item
    if kind == "hist":
        m, hs, deep = payload
        out = []
        for h in hs:
            try:
                rr = run_history(m, h, deep=deep)
                for r in rr:
                    if r.get("replay"):
                        r["replay"]["deep"] = deep
                out += rr
            except Exception as e:  # noqa: BLE001
                import traceback
                out.append(harness_error(f"{type(e).__name__}: {e}", item=f"{m['tag']}:{h}", tb=traceback.format_exc()[-1500:]))
        return out
    if kind == "twin":
        rr = run_history(models()[0], ("set1", "call0", "solve:SLSQP"), planted=True)
        nv = sum(x["status"] == "violation" for x in rr)
        return [dict(status="conformance", what="twin refuted", points=1) if nv >= 3 else harness_error(f"twin not refuted ({nv})")]
    raise ValueError(kind)


def replay(payload):
    """concrete replay of the history with floats: every observation against a
    freshly built model holding Constants with the current values"""
    import random
    import types
    import warnings
    import optyx.solvers.scipy_solver as ss
    import scipy.optimize
    from optyx.core import autodiff as A
    from optyx.core import compiler as C
    model = K.dec(payload["model"])
    hist = payload["hist"]
    if payload.get("deep"):
        from vf.props import c15
        old = c15.set_thresholds(0)
        try:
            return replay(dict(payload, deep=False))
        finally:
            c15.restore_thresholds(old)
    rng = random.Random(12)
    names = LM.model_names(model)
    from fractions import Fraction
    mv = {k: float(Fraction(v)) for k, v in payload.get("values", {}).items()}
    nset = {"p1": 0, "p2": 0}
    for attempt in range(6):
        nset = {"p1": 0, "p2": 0}
        use_model = attempt == 0 and bool(mv)
        val = {n: (mv.get(n, 0.7) if use_model else rng.uniform(0.3, 1.2)) for n in names["vars"] + names["syms"]}
        cur = {"p1": mv.get("p1_0", 1.0) if use_model else rng.choice([0.0, 1.0, rng.uniform(0.5, 1.5)]),
               "p2": mv.get("p2_0", 1.0) if use_model else rng.choice([0.0, 1.0, rng.uniform(0.5, 1.5)])}
        val.update(cur)
        p, b = LM.build_model(model, val)
        cols = [v.name for v in p.variables]
        V = list(p.variables)
        x = np.array([val[n] for n in cols])
        point = {n: val[n] for n in cols}
        obj = p.objective
        f0 = C.compile_expression(obj, V)
        j0 = A.compile_jacobian([obj] + [c.expr for c in p.constraints], V)
        h0 = A.compile_hessian(obj, V)

        def fresh():
            v = dict(val)
            v.update(cur)
            return v

        def ref_val():
            return float(Ref(fresh(), 0).S(model["obj"]))

        def ref_grad(recipe_fn):
            out = []
            for w in cols:
                r = Ref(K.dual_val(fresh(), w), 1)
                out.append(float(K.tangent(recipe_fn(r))))
            return out

        for op in hist:
            if op in ("set1", "set2"):
                k = "p1" if op == "set1" else "p2"
                nset[k] += 1
                cur[k] = mv.get(f"{k}_{nset[k]}", 2.5) if use_model else rng.uniform(2.0, 3.0)
                if model.get("vparam"):
                    b.vparam.set([cur[n_] for n_ in model["vparam"]])
                else:
                    b.params[k].set(cur[k])
                continue
            with np.errstate(all="ignore"):
                if op == "eval":
                    if not K.close(float(obj.evaluate(point)), ref_val(), 1e-7, 1e-9):
                        return True, f"after {hist}: evaluate gives {float(obj.evaluate(point))}, formula with current parameters {ref_val()}"
                elif op == "call0":
                    if not K.close(float(f0(x)), ref_val(), 1e-7, 1e-9):
                        return True, f"after {hist}: early-compiled callable gives {float(f0(x))}, expected {ref_val()}"
                elif op == "compile":
                    if not K.close(float(C.compile_expression(obj, V)(x)), ref_val(), 1e-7, 1e-9):
                        return True, f"after {hist}: fresh compile gives {float(C.compile_expression(obj, V)(x))}, expected {ref_val()}"
                    g = np.asarray(C.compile_gradient(obj, V)(x), dtype=float).reshape(-1)
                    rg = ref_grad(lambda r: r.S(model["obj"]))
                    if any(not K.close(a, b_, 1e-6, 1e-8) for a, b_ in zip(g, rg)):
                        return True, f"after {hist}: fresh gradient {g.tolist()} vs {rg}"
                elif op == "jac0":
                    J = np.asarray(j0(x), dtype=float)
                    rg = ref_grad(lambda r: r.S(model["obj"]))
                    if any(not K.close(a, b_, 1e-6, 1e-8) for a, b_ in zip(J[0], rg)):
                        return True, f"after {hist}: early-compiled Jacobian row {J[0].tolist()} vs {rg}"
                    for i, (kind, l, rr) in enumerate(model["cons"]):
                        rg = ref_grad(lambda r, l=l, rr=rr: r.S(l) - r.S(rr))
                        if any(not K.close(a, b_, 1e-6, 1e-8) for a, b_ in zip(J[i + 1], rg)):
                            return True, f"after {hist}: early-compiled constraint Jacobian row {J[i + 1].tolist()} vs {rg}"
                elif op == "hess0":
                    H = np.asarray(h0(x), dtype=float)
                    for i, wi in enumerate(cols):
                        for j, wj in enumerate(cols):
                            r = Ref(K.dual_val(fresh(), wi, wj), 2)
                            d = float(K.second(r.S(model["obj"])))
                            if not K.close(H[i, j], d, 1e-6, 1e-8):
                                return True, f"after {hist}: early-compiled Hessian[{i}][{j}]={H[i, j]} vs {d}"
                elif op.startswith("solve:"):
                    cap, lp = [], []

                    def fake(fun, x0, **kw):
                        cap.append(dict(fun=fun, x0=np.array(x0, dtype=float), **kw))
                        return types.SimpleNamespace(x=np.array(x0, dtype=float), fun=fun(np.array(x0, dtype=float)), success=False, message="scripted", nit=0)

                    def fake_lp(c, **kw):
                        lp.append(c)
                        return types.SimpleNamespace(x=None, fun=None, success=False, status=4, message="scripted", nit=0)
                    old, oldl = ss.minimize, scipy.optimize.linprog
                    ss.minimize, scipy.optimize.linprog = fake, fake_lp
                    try:
                        with warnings.catch_warnings():
                            warnings.simplefilter("ignore")
                            p.solve(method=op.split(":")[1])
                    finally:
                        ss.minimize, scipy.optimize.linprog = old, oldl
                    if lp:
                        return True, f"after {hist}: model with parameters handed to linprog with frozen cost {np.asarray(lp[0]).tolist()}"
                    if not cap:
                        continue
                    s = 1.0 if model["sense"] == "min" else -1.0
                    # also at the point every solve of this history evaluated last (the starting point): a value or
                    # gradient remembered from an earlier solve would be served there
                    x0c = cap[0]["x0"]
                    v0 = fresh()
                    v0.update({n: float(t) for n, t in zip(cols, x0c)})
                    with np.errstate(all="ignore"):
                        want0 = s * float(Ref(v0, 0).S(model["obj"]))
                        got0 = float(cap[0]["fun"](x0c))
                    if np.isfinite(want0) and np.isfinite(got0) and not K.close(got0, want0, 1e-7, 1e-9):
                        return True, f"after {hist}: objective handed to the solver gives {got0} at the starting point {x0c.tolist()}, expected {want0} (current parameters {cur})"
                    g0 = np.asarray(cap[0]["jac"](x0c), dtype=float).reshape(-1)
                    rg0 = []
                    for w in cols:
                        r = Ref(K.dual_val(v0, w), 1)
                        rg0.append(s * float(K.tangent(r.S(model["obj"]))))
                    if all(np.isfinite(rg0)) and all(np.isfinite(g0)) and any(not K.close(a, b_, 1e-6, 1e-8) for a, b_ in zip(g0, rg0)):
                        return True, f"after {hist}: gradient handed to the solver at the starting point {g0.tolist()} vs {rg0}"
                    if not K.close(float(cap[0]["fun"](x)), s * ref_val(), 1e-7, 1e-9):
                        return True, f"after {hist}: objective handed to the solver gives {float(cap[0]['fun'](x))}, expected {s * ref_val()}"
                    g = np.asarray(cap[0]["jac"](x), dtype=float).reshape(-1)
                    rg = [s * t for t in ref_grad(lambda r: r.S(model["obj"]))]
                    if any(not K.close(a, b_, 1e-6, 1e-8) for a, b_ in zip(g, rg)):
                        return True, f"after {hist}: gradient handed to the solver {g.tolist()} vs {rg}"
                    if cap[0].get("hess") is not None:
                        H = np.asarray(cap[0]["hess"](x), dtype=float)
                        for i, wi in enumerate(cols):
                            for j, wj in enumerate(cols):
                                r = Ref(K.dual_val(fresh(), wi, wj), 2)
                                d = s * float(K.second(r.S(model["obj"])))
                                if not K.close(H[i, j], d, 1e-6, 1e-8):
                                    return True, f"after {hist}: Hessian handed to the solver [{i}][{j}]={H[i, j]} vs {d}"
                    for cd, (kind, l, rr) in zip(cap[0].get("constraints") or [], model["cons"]):
                        r = Ref(fresh(), 0)
                        sense, v = LM.con_ref(r, kind, l, rr)
                        f = float(cd["fun"](x))
                        if abs(float(v)) > 1e-9 and sense == "<=" and (f >= 0) != (float(v) <= 0):
                            return True, f"after {hist}: constraint fun {f} vs relation value {float(v)}"
                        if not K.close(abs(f), abs(float(v)), 1e-7, 1e-9):
                            return True, f"after {hist}: constraint fun {f} vs relation value {float(v)}"
    return False, "no difference reproduced"
