"""C13 - editing a model invalidates everything derived from the old model.

Histories over {minimize(e), maximize(e), subject_to(c), subject_to([c..]),
v.lb / v.ub := b (symbolic b), solve(m) for LP and NLP methods through the
recording stubs, read .variables / .n_variables / get_bounds()}.  After EVERY
solve and read, the observation on the long-lived problem must equal the same
observation on a fresh Problem constructed directly from the current objective,
sense, constraints and bounds: z3 proves the recorded solver arguments equal
for all x and all symbolic data (fun, jac, hess, every constraint fun/jac,
bounds, x0, method; or c, A_ub, b_ub, A_eq, b_eq, bounds, method), and the
variable list, the linearity verdict and get_bounds() are compared
structurally."""
from __future__ import annotations

import itertools

import numpy as np

from vf.engine import stubs
from vf.engine.recipes import Build
from vf.props import common as K
from vf.props.common import harness_error, inconclusive, proved, violation

ID = "C13"
LEVEL = "model_checking"
ITEM_BUDGET_S = {"quick": 500, "thorough": 1800}
QT = {"quick": 15000, "thorough": 30000}
_TIER = "quick"
X, Y, Z = ("var", "x"), ("var", "y"), ("var", "z")

EXPRS = {
    "lin_xy": ("bin", "+", ("bin", "*", ("const", ("sym", "c1")), X), ("bin", "*", ("num", 2.0), Y)),
    "quad_xy": ("bin", "+", ("bin", "*", X, X), ("bin", "*", ("const", ("sym", "c2")), ("bin", "*", Y, Y))),
    "lin_xz": ("bin", "+", X, ("bin", "*", ("num", ("sym", "c1")), Z)),
    "exp_xz": ("bin", "+", ("un", "exp", X), ("bin", "*", Z, Z)),
    "lin_ax": ("bin", "+", ("var", "a"), ("bin", "*", ("const", ("sym", "c1")), X)),   # linear twin of quad_ax (targeted histories only)
    "quad_ax": ("bin", "+", ("bin", "*", ("var", "a"), ("var", "a")), ("bin", "*", ("const", ("sym", "c1")), X)),   # 'a' sorts BEFORE x: shifts the layout
}
CONS = {
    "c_lin": [("ge", ("bin", "+", X, Y), ("num", ("sym", "r1")))],
    "c_nl": [("le", ("bin", "*", X, Y), ("num", ("sym", "r2")))],
    "c_list": [("ge", X, ("num", 0.0)), ("le", Z, ("num", ("sym", "r3")))],
    "c_eq": [("eq", ("bin", "-", X, Y), ("num", ("sym", "r1")))],
    "c_list_rev": [("le", Z, ("num", ("sym", "r3"))), ("ge", X, ("num", 0.0))],   # the NEW variable is not in the last element
}
SOLVES = ["auto", "SLSQP", "trust-constr", "highs"]

META = dict(
    rule="one case = (operation history, observation step); the solver quantifies over the point x and all symbolic data (coefficients, right-hand sides, every bound value ever assigned)",
    bounds={
        "quick": "alphabet of 16 operations (4 objectives via minimize incl. one that shifts the variable layout, 1 via maximize, 4 subject_to incl. two lists, 2 bound assignments, 4 solve methods {auto, SLSQP, trust-constr, highs}, read); histories of length <= 4 that start by setting an objective and end with an observation (exhaustive, about 4.5k) plus three targeted length-5 families: [objective, constraint, solve, new objective or bound edit, solve] and [objective, solve, constraint, constraint, solve] over all objectives / constraints and methods {auto, SLSQP}",
        "thorough": "adds L-BFGS-B and highs-ds; length <= 4 exhaustive with the same pruning, the length-5 layer sampled (VERIF_SEED) down to 80000 histories, the targeted length-5 families in full",
    },
    outside=["solver replies (fixed non-branching reply; mapping is C06-C08)", "removal of constraints (no API)", "rounding (S7)"],
    assumptions=["S4/S5 in 'fixed' mode", "S1", "S2", "S6", "S7", "reference = a fresh Problem over the same expression and variable objects"],
    exhaustive_within_bounds=True,
)


def worker_init(tier, seed):
    global _TIER
    _TIER = tier


def alphabet(tier):
    ops = [("min", k) for k in EXPRS if k != "lin_ax"] + [("max", "lin_xy")] + [("sub", k) for k in CONS] + [("lb", "y"), ("ub", "x")]
    if tier == "quick":   # keep the exhaustive product affordable: one representative of each kind in the middle positions
        ops = [o for o in ops if o not in (("min", "exp_xz"), ("sub", "c_eq"))]
    obs = [("solve", m) for m in SOLVES + (["L-BFGS-B", "highs-ds"] if tier == "thorough" else [])] + [("read", "")]
    return ops, obs


def items(tier, seed):
    ops, obs = alphabet(tier)
    L = 4 if tier == "quick" else 5
    first = [o for o in ops if o[0] in ("min", "max")]
    hs = []
    for l in range(2, L + 1):
        for mid in itertools.product(ops + obs, repeat=l - 2):
            for f in first:
                for last in obs:
                    hs.append((f,) + mid + (last,))
    # targeted length-5 families (the canonical staleness patterns): solve, then replace the objective /
    # add constraints / edit a bound, then solve again
    objs = [o for o in ops if o[0] in ("min", "max")]
    subs = [o for o in ops if o[0] == "sub"] + [("sub", "c_eq")]
    edits = [o for o in ops if o[0] in ("lb", "ub")]
    ms = [("solve", "auto"), ("solve", "SLSQP")]
    extra = []
    for A in objs:
        for C_ in subs:
            for m1 in ms:
                for m2 in ms:
                    for B in objs:
                        if B != A:
                            extra.append((A, C_, m1, B, m2))
                    for e in edits:
                        extra.append((A, C_, m1, e, m2))
        for m1 in ms:
            for m2 in ms:
                for C1 in subs:
                    for C2 in subs:
                        if C1 != C2:
                            extra.append((A, m1, C1, C2, m2))
    # the objective is replaced by one over ANOTHER variable set of the SAME size (x,z -> a,x with constraints on x,y: three
    # variables before and after, other columns), on the LP and on the NLP route
    for A, B in (("lin_xz", "lin_ax"), ("lin_ax", "lin_xz"), ("exp_xz", "quad_ax"), ("quad_ax", "exp_xz"), ("lin_xz", "quad_ax"), ("quad_ax", "lin_xz")):
        for C_ in (("sub", "c_lin"), ("sub", "c_nl"), ("sub", "c_eq")):
            for m1 in (("solve", "auto"), ("solve", "SLSQP"), ("solve", "highs")):
                for m2 in (("solve", "auto"), ("solve", "SLSQP"), ("solve", "highs")):
                    for setB in ("min", "max"):
                        extra.append((("min", A), C_, m1, (setB, B), m2))
                        extra.append((("min", A), C_, m1, (setB, B), ("read", "")))
    # method interleavings: the first solve after an edit uses a derivative-free / bounds-less method (the compiled
    # cache is built for it), a later solve of the unchanged model a derivative-based one, and the other way round
    free = [("solve", "Nelder-Mead"), ("solve", "BFGS")]
    grad = [("solve", "SLSQP"), ("solve", "L-BFGS-B"), ("solve", "trust-constr")]
    for A in objs:
        for m1 in free:
            for m2 in grad:
                extra += [(A, m1, m2), (A, m2, m1), (A, subs[0], m1, m2), (A, m1, edits[0], m2), (A, m1, subs[0], m2)]
    # a failed edit in the middle: solve, subject_to([.., <not a constraint>]) raises, solve again
    for A in objs:
        for C_ in subs:
            for m1 in ms:
                extra += [(A, m1, ("subfail", C_[1]), m1), (A, ("subfail", C_[1]), m1), (A, m1, ("subfail", C_[1]), ("read", ""))]
    if tier == "thorough":
        # all histories up to length 4; the length-5 layer is sampled (VERIF_SEED) down to about 80000 histories
        import random as _r
        short = [h for h in hs if len(h) <= 4]
        long_ = [h for h in hs if len(h) > 4]
        rng = _r.Random(seed)
        keep = min(len(long_), 80000)
        hs = short + rng.sample(long_, keep)
    seen = set(hs)
    extra = [h for h in extra if h not in seen]
    its = [("twin", 0)]
    for ch in K.chunks(hs + extra, 80):
        its.append(("hist", ch))
    return its


class World:
    """expression objects shared by the long-lived and the fresh problems"""

    def __init__(self, val):
        self.val = val
        self.b = Build(val, bounds={"x": (val["lx"], val["ux0"]), "y": (val["ly0"], None)})
        self.exprs = {k: self.b.S(r) for k, r in EXPRS.items()}
        from vf.props.lpmodels import make_constraint
        self.cons = {k: [make_constraint(self.b, *c) for c in cs] for k, cs in CONS.items()}
        self.nb = 0


def capture(problem, method):
    import warnings
    ms, ls = stubs.MinimizeStub("fixed"), stubs.LinprogStub("fixed")
    exc = None
    with stubs.patched(ms, ls), warnings.catch_warnings():
        warnings.simplefilter("ignore")
        try:
            problem.solve(method=method)
        except Exception as e:  # noqa: BLE001
            exc = e
    return ms.calls, ls.calls, exc


def fresh_problem(objective, sense, constraints):
    from optyx import Problem
    p = Problem()
    if objective is not None:
        (p.minimize if sense == "minimize" else p.maximize)(objective)
    for c in constraints:
        p.subject_to(c)
    return p


def compare_calls(a, b, xs_names, val, what, sig, payload, allv, pc=()):
    """two recorded solver calls must be equal as functions / data"""
    from vf.engine import smt
    res = []
    (ma, la, ea), (mb, lb, eb) = a, b
    from vf.engine.sym import SymbolicConcretisation
    for e in (ea, eb):
        if isinstance(e, SymbolicConcretisation):
            return [harness_error(f"concretisation in solve: {e}", item=what)]
    if (ea is None) != (eb is None) or (ea is not None and type(ea) is not type(eb)):
        return [violation(sig + "|exception", f"{what}: raises {ea!r} vs fresh {eb!r}", payload)]
    if ea is not None:
        return [proved(f"{what}: both raise {type(ea).__name__}")]
    if len(ma) != len(mb) or len(la) != len(lb):
        return [violation(sig + "|route", f"{what}: solver calls (minimize {len(ma)}, linprog {len(la)}) vs fresh ({len(mb)}, {len(lb)})", payload)]
    claims = []
    for ca, cb in zip(la, lb):
        if ca["method"] != cb["method"]:
            return [violation(sig + "|lp-method", f"{what}: linprog method {ca['method']} vs {cb['method']}", payload)]
        for key in ("c", "A_ub", "b_ub", "A_eq", "b_eq"):
            u, v = ca[key], cb[key]
            if (u is None) != (v is None):
                return [violation(sig + f"|lp-{key}", f"{what}: {key} presence differs", payload)]
            if u is None:
                continue
            fu, fv = np.asarray(u, dtype=object).reshape(-1), np.asarray(v, dtype=object).reshape(-1)
            if np.shape(u) != np.shape(v):
                return [violation(sig + f"|lp-{key}-shape", f"{what}: {key} shape {np.shape(u)} vs fresh {np.shape(v)}", payload)]
            claims += [smt.eq(p_, q_) for p_, q_ in zip(fu, fv)]
        r = _cmp_bounds(ca["bounds"], cb["bounds"], claims)
        if r:
            return [violation(sig + "|lp-bounds", f"{what}: bounds {r}", payload)]
    try:
        return _compare_minimize(ma, mb, xs_names, val, what, sig, payload, allv, pc, claims, res)
    except SymbolicConcretisation:
        raise
    except Exception as e:  # noqa: BLE001  a recorded callable itself raises (e.g. stale index layout)
        return [violation(sig + f"|callable-raises:{type(e).__name__}", f"{what}: a callable handed to the solver raises {type(e).__name__}: {str(e)[:80]}", payload)]


def _compare_minimize(ma, mb, xs_names, val, what, sig, payload, allv, pc, claims, res):
    from vf.engine import smt
    for ca, cb in zip(ma, mb):
        if ca["method"] != cb["method"]:
            return [violation(sig + "|method", f"{what}: method {ca['method']} vs fresh {cb['method']}", payload)]
        n = len(ca["x0"])
        if n != len(cb["x0"]) or n != len(xs_names):
            return [violation(sig + "|nvars", f"{what}: {n} variables vs fresh {len(cb['x0'])}", payload)]
        x = np.empty(n, dtype=object)
        for i, nm in enumerate(xs_names):
            x[i] = val[nm]
        claims += [smt.eq(u, v) for u, v in zip(ca["x0"], cb["x0"])]
        claims.append(smt.eq(ca["fun"](x), cb["fun"](x)))
        for key in ("jac", "hess"):
            if (ca[key] is None) != (cb[key] is None):
                return [violation(sig + f"|{key}-presence", f"{what}: {key} presence differs", payload)]
            if ca[key] is not None:
                u, v = np.asarray(ca[key](x), dtype=object).reshape(-1), np.asarray(cb[key](x), dtype=object).reshape(-1)
                if len(u) != len(v):
                    return [violation(sig + f"|{key}-shape", f"{what}: {key} shape differs", payload)]
                claims += [smt.eq(p_, q_) for p_, q_ in zip(u, v)]
        da, db = list(ca["constraints"] or []), list(cb["constraints"] or [])
        if len(da) != len(db):
            return [violation(sig + "|constraint-count", f"{what}: {len(da)} constraint dicts vs fresh {len(db)}", payload)]
        for u, v in zip(da, db):
            if u["type"] != v["type"]:
                return [violation(sig + "|constraint-type", f"{what}: constraint type differs", payload)]
            claims.append(smt.eq(u["fun"](x), v["fun"](x)))
            claims += [smt.eq(p_, q_) for p_, q_ in zip(np.asarray(u["jac"](x)).reshape(-1), np.asarray(v["jac"](x)).reshape(-1))]
        if (ca["bounds"] is None) != (cb["bounds"] is None):
            return [violation(sig + "|bounds-presence", f"{what}: bounds presence differs", payload)]
        if ca["bounds"] is not None:
            r = _cmp_bounds(ca["bounds"], cb["bounds"], claims)
            if r:
                return [violation(sig + "|bounds", f"{what}: bounds {r}", payload)]
    res.append(K.decide(claims, pc, [], what, sig + "|values", payload, allv, QT[_TIER]))
    return res


def _cmp_bounds(ba, bb, claims):
    from vf.engine import smt
    if (ba is None) != (bb is None):
        return "presence differs"
    if ba is None:
        return None
    if len(ba) != len(bb):
        return f"{len(ba)} vs {len(bb)} entries"
    for (l1, u1), (l2, u2) in zip(ba, bb):
        for p_, q_ in ((l1, l2), (u1, u2)):
            n1 = p_ is None or (isinstance(p_, float) and not np.isfinite(p_))
            n2 = q_ is None or (isinstance(q_, float) and not np.isfinite(q_))
            if n1 != n2:
                return f"{p_} vs {q_}"
            if not n1:
                claims.append(smt.eq(p_, q_))
    return None


def _history_path(hist, planted=False):
    from optyx import Problem
    from vf.engine import npshim, smt
    from vf.engine.sym import SReal
    res = []
    base = ["a", "x", "y", "z", "c1", "c2", "r1", "r2", "r3", "lx", "ux0", "ly0"]
    val = K.sym_val(base)
    w = World(val)
    p = Problem()
    cur_obj, cur_sense, cur_cons = None, "minimize", []
    ref_obj, ref_cons, ref_bounds = None, [], {"x": (("sym", "lx"), ("sym", "ux0")), "y": (("sym", "ly0"), None)}
    allv = list(base)
    htag = ">".join(f"{a}:{b}" if b else a for a, b in hist)
    for step, (op, arg) in enumerate(hist):
        if op == "min":
            p.minimize(w.exprs[arg])
            cur_obj, cur_sense = w.exprs[arg], "minimize"
            ref_obj = EXPRS[arg]
        elif op == "max":
            p.maximize(w.exprs[arg])
            cur_obj, cur_sense = w.exprs[arg], "maximize"
            ref_obj = EXPRS[arg]
        elif op == "sub":
            cs = w.cons[arg]
            p.subject_to(cs if len(cs) > 1 else cs[0])
            cur_cons = cur_cons + cs
            ref_cons = ref_cons + CONS[arg]
        elif op == "subfail":
            # subject_to with a list whose LAST element is not a constraint: the call raises; whatever part of the
            # list the problem kept afterwards is part of the current state (read back from problem.constraints)
            cs = w.cons[arg]
            before = len(p.constraints)
            try:
                p.subject_to(list(cs) + [True])
            except Exception:  # noqa: BLE001
                pass
            kept = len(p.constraints) - before
            cur_cons = cur_cons + list(p.constraints)[before:]
            ref_cons = ref_cons + CONS[arg][:kept]
        elif op in ("lb", "ub"):
            w.nb += 1
            name = f"b{w.nb}"
            nb = SReal.var(name)
            allv.append(name)
            val[name] = nb
            setattr(w.b.objs[arg], op, nb)
            old_b = ref_bounds.get(arg, (None, None))
            ref_bounds[arg] = (("sym", name), old_b[1]) if op == "lb" else (old_b[0], ("sym", name))
        else:
            fresh = fresh_problem(cur_obj, cur_sense, cur_cons)
            payload = dict(kind="hist", hist=[list(h) for h in hist], step=step)
            prior = "+".join(sorted({a for a, _ in hist[:step] if a in ("lb", "ub", "sub", "min", "max")}))
            had_solve = any(a == "solve" for a, _ in hist[:step])
            sig = f"C13|{op}:{arg}|edits-after-solve={_edits_after_solve(hist[:step])}"
            if op == "read":
                got = ([v.name for v in p.variables], p.n_variables, p._is_linear_problem())
                want = ([v.name for v in fresh.variables], fresh.n_variables, fresh._is_linear_problem())
                if got != want or planted:
                    res.append(violation(sig + "|variables", f"{htag}@{step}: variables/linearity {got} vs fresh {want}", payload))
                else:
                    res.append(proved(f"{htag}@{step}: variables, n_variables, linearity == fresh"))
                claims = []
                r = _cmp_bounds(p.get_bounds(), fresh.get_bounds(), claims)
                if r:
                    res.append(violation(sig + "|get_bounds", f"{htag}@{step}: get_bounds {r}", payload))
                elif claims:
                    res.append(("bounds", (claims, f"{htag}@{step}: get_bounds == fresh", sig + "|get_bounds-values", payload, list(allv))))
            else:
                a = capture(p, arg)
                b_ = capture(fresh, arg)
                xs = [v.name for v in fresh.variables] if cur_obj is not None else []
                res.append(("calls", (a, b_, xs, dict(val), f"{htag}@{step}: solve({arg}) arguments == fresh problem", sig, payload, list(allv), planted)))
                if cur_obj is not None:
                    model = dict(tag=htag, obj=ref_obj, sense="min" if cur_sense == "minimize" else "max", cons=list(ref_cons), bounds=dict(ref_bounds))
                    res.append(("ref", (a, model, dict(val), f"{htag}@{step}: solve({arg})", sig, payload, list(allv), arg)))
    return res


def run_history(hist, planted=False):
    """explore the history (symbolic bounds make _compute_initial_point branch)
    and discharge the deferred comparisons under each path condition"""
    out = []
    for dec, labels, pc, res in K.explore(lambda: _history_path(hist, planted), max_paths=400):
        for r in res:
            if isinstance(r, dict):
                out.append(r)
            elif r[0] == "calls":
                a, b_, xs, val, what, sig, payload, allv, pl = r[1]
                rr = compare_calls(a, b_, xs, val, what, sig, payload, allv, pc)
                if pl:
                    rr = [violation(sig + "|planted", "planted", payload)]
                out += rr
            elif r[0] == "ref":
                out += reference_obligations(r[1], pc)
            elif r[0] == "bounds":
                claims, what, sig, payload, allv = r[1]
                out.append(K.decide(claims, pc, [], what, sig, payload, allv, QT[_TIER]))
    return out


def reference_obligations(args, pc):
    """independent oracle: what the long-lived problem hands to the solver must describe the CURRENT model
    as the reference interpreter reads it (not merely equal what a fresh Problem over the same objects hands over)"""
    from vf.props import c16
    from vf.props import lpmodels as LM
    from vf.props import solving as SV
    (ma, la, ea), model, val, what, sig, payload, allv, method = args
    if ea is not None:
        return []
    out = []
    cols = sorted(c16.mentioned(model), key=lambda n: (c16.natural_key(n), n))
    if any(n not in val for n in cols):
        return [harness_error(f"unknown variable among {cols}", item=what)]
    form = "edits-after-solve=" + sig.split("edits-after-solve=")[-1]
    for call in ma[:1]:
        if len(call["x0"]) != len(cols):
            out.append(violation(sig + "|ref-nvars", f"{what}: the solver gets {len(call['x0'])} variables, the current model mentions {cols}", payload))
            continue
        out += SV.minimize_call_obligations(call, model, cols, val, pc, what + " [vs reference]", form, method, "C13", QT[_TIER], allv, payload, check_x0=False)
    for call in la[:1]:
        out += SV.lp_call_obligations(call, model, cols, val, pc, what + " [vs reference]", form, "C13", QT[_TIER], allv, payload)
    return out


def _edits_after_solve(prefix):
    """which kinds of edit happened after the most recent solve (the staleness window)"""
    last = -1
    for i, (a, _) in enumerate(prefix):
        if a == "solve":
            last = i
    if last < 0:
        return "none"
    kinds = sorted({a for a, _ in prefix[last + 1:] if a != "read"})
    return "+".join(kinds) if kinds else "none"


def check(item):
    kind, payload = item
    if kind == "hist":
        out = []
        for h in payload:
            try:
                out += run_history(h)
            except Exception as e:  # noqa: BLE001
                import traceback
                out.append(harness_error(f"{type(e).__name__}: {e}", item=repr(h), tb=traceback.format_exc()[-1500:]))
        return out
    if kind == "twin":
        # reachability twin: with cache invalidation switched off (from outside), a stale solve must be refuted
        from optyx.problem import Problem
        orig = Problem._invalidate_caches
        Problem._invalidate_caches = lambda self: None
        try:
            rr = run_history((("min", "lin_xy"), ("solve", "auto"), ("sub", "c_lin"), ("solve", "auto"), ("min", "quad_xy"), ("solve", "SLSQP"), ("read", "")))
        finally:
            Problem._invalidate_caches = orig
        nv = sum(x["status"] == "violation" for x in rr)
        return [dict(status="conformance", what=f"twin refuted ({nv} stale observations)", points=1) if nv >= 2 else harness_error(f"twin not refuted: {[x['what'][:80] for x in rr]}")]
    raise ValueError(kind)


def replay(payload):
    """concrete floats, same history, the real code with recording seams"""
    import random
    import types
    import warnings
    import scipy.optimize
    import optyx.solvers.scipy_solver as ss
    from optyx import Problem
    hist = [tuple(h) for h in payload["hist"]]
    rng = random.Random(13)
    base = ["a", "x", "y", "z", "c1", "c2", "r1", "r2", "r3", "lx", "ux0", "ly0"]
    val = {n: rng.uniform(0.5, 1.5) for n in base}
    val["lx"], val["ly0"], val["ux0"] = -1.0, -2.0, 4.0
    w = World(val)
    p = Problem()
    cur_obj, cur_sense, cur_cons = None, "minimize", []
    ref_obj, ref_cons = None, []

    def cap(problem, method):
        m, l = [], []

        def fm(fun, x0, **kw):
            m.append(dict(fun=fun, x0=np.array(x0, dtype=float), **kw))
            return types.SimpleNamespace(x=np.array(x0, dtype=float), fun=fun(np.array(x0, dtype=float)), success=False, message="scripted", nit=0)

        def fl(c, **kw):
            l.append(dict(c=np.array(c, dtype=float), **kw))
            return types.SimpleNamespace(x=None, fun=None, success=False, status=4, message="scripted", nit=0)
        om, ol = ss.minimize, scipy.optimize.linprog
        ss.minimize, scipy.optimize.linprog = fm, fl
        exc = None
        try:
            with warnings.catch_warnings():
                warnings.simplefilter("ignore")
                try:
                    problem.solve(method=method)
                except Exception as e:  # noqa: BLE001
                    exc = e
        finally:
            ss.minimize, scipy.optimize.linprog = om, ol
        return m, l, exc

    for step, (op, arg) in enumerate(hist):
        if op == "min":
            p.minimize(w.exprs[arg]); cur_obj, cur_sense = w.exprs[arg], "minimize"; ref_obj = EXPRS[arg]
        elif op == "max":
            p.maximize(w.exprs[arg]); cur_obj, cur_sense = w.exprs[arg], "maximize"; ref_obj = EXPRS[arg]
        elif op == "sub":
            cs = w.cons[arg]
            p.subject_to(cs if len(cs) > 1 else cs[0]); cur_cons = cur_cons + cs; ref_cons = ref_cons + CONS[arg]
        elif op == "subfail":
            cs = w.cons[arg]
            before = len(p.constraints)
            try:
                p.subject_to(list(cs) + [True])
            except Exception:  # noqa: BLE001
                pass
            kept = len(p.constraints) - before
            cur_cons = cur_cons + list(p.constraints)[before:]
            ref_cons = ref_cons + CONS[arg][:kept]
        elif op in ("lb", "ub"):
            setattr(w.b.objs[arg], op, rng.uniform(-0.9, -0.1) if op == "lb" else rng.uniform(2.0, 3.0))
        else:
            fresh = fresh_problem(cur_obj, cur_sense, cur_cons)
            if op == "read":
                got = ([v.name for v in p.variables], p.n_variables, p._is_linear_problem(), p.get_bounds())
                want = ([v.name for v in fresh.variables], fresh.n_variables, fresh._is_linear_problem(), fresh.get_bounds())
                if got != want:
                    return True, f"step {step}: long-lived problem reports {got}, fresh problem {want}"
                continue
            (ma, la, ea), (mb, lb, eb) = cap(p, arg), cap(fresh, arg)
            r = _replay_reference(ma, la, ea, ref_obj, cur_sense, ref_cons, val, step, rng)
            if r:
                return True, r
            if type(ea) is not type(eb):
                return True, f"step {step}: solve raises {ea!r} but a fresh problem {eb!r}"
            if len(ma) != len(mb) or len(la) != len(lb):
                return True, f"step {step}: solver route differs from a fresh problem ({len(ma)},{len(la)}) vs ({len(mb)},{len(lb)})"
            for ca, cb in zip(la, lb):
                for key in ("c", "A_ub", "b_ub", "A_eq", "b_eq", "bounds", "method"):
                    u, v = ca.get(key), cb.get(key)
                    if (u is None) != (v is None) or (u is not None and not _same(u, v)):
                        return True, f"step {step}: linprog {key} = {u} but a fresh problem passes {v}"
            for ca, cb in zip(ma, mb):
                if ca.get("method") != cb.get("method") or len(ca["x0"]) != len(cb["x0"]):
                    return True, f"step {step}: minimize method/size {ca.get('method')},{len(ca['x0'])} vs fresh {cb.get('method')},{len(cb['x0'])}"
                if not _same(ca.get("bounds"), cb.get("bounds")):
                    return True, f"step {step}: bounds passed {ca.get('bounds')} but a fresh problem passes {cb.get('bounds')}"
                if not _same(ca["x0"], cb["x0"]):
                    return True, f"step {step}: x0 {ca['x0']} vs fresh {cb['x0']}"
                for _ in range(5):
                    x = np.array([rng.uniform(0.3, 1.5) for _i in ca["x0"]])
                    with np.errstate(all="ignore"):
                        if not K.close(float(ca["fun"](x)), float(cb["fun"](x)), 1e-9, 1e-12):
                            return True, f"step {step}: objective callable differs from a fresh problem at {x.tolist()}"
                        if (ca.get("jac") is None) != (cb.get("jac") is None):
                            return True, f"step {step}: jac passed={ca.get('jac') is not None} but a fresh problem passes jac={cb.get('jac') is not None}"
                        if ca.get("jac") is not None and not _same(ca["jac"](x), cb["jac"](x)):
                            return True, f"step {step}: gradient callable differs from a fresh problem"
                        if (ca.get("hess") is None) != (cb.get("hess") is None) or (ca.get("hess") is not None and not _same(ca["hess"](x), cb["hess"](x))):
                            return True, f"step {step}: Hessian differs from a fresh problem"
                        da, db = list(ca.get("constraints") or []), list(cb.get("constraints") or [])
                        if len(da) != len(db):
                            return True, f"step {step}: {len(da)} constraints vs fresh {len(db)}"
                        for u, v in zip(da, db):
                            if u["type"] != v["type"] or not K.close(float(u["fun"](x)), float(v["fun"](x)), 1e-9, 1e-12) or not _same(u["jac"](x), v["jac"](x)):
                                return True, f"step {step}: a constraint differs from a fresh problem"
    return False, "no difference reproduced"


def _replay_reference(ma, la, ea, ref_obj, sense, ref_cons, val, step, rng):
    """numeric version of reference_obligations"""
    from vf.engine.recipes import Ref
    from vf.props import c16
    from vf.props import lpmodels as LM
    if ea is not None or ref_obj is None:
        return None
    model = dict(obj=ref_obj, sense="min" if sense == "minimize" else "max", cons=list(ref_cons), bounds={})
    cols = sorted(c16.mentioned(model), key=lambda n: (c16.natural_key(n), n))
    sgn = 1.0 if sense == "minimize" else -1.0
    for call in ma[:1]:
        if len(call["x0"]) != len(cols):
            return f"step {step}: the solver gets {len(call['x0'])} variables but the current model mentions {cols}"
        for _ in range(6):
            pt = dict(val)
            for n in cols:
                pt[n] = rng.uniform(0.3, 1.6)
            x = np.array([pt[n] for n in cols])
            with np.errstate(all="ignore"):
                f = float(call["fun"](x))
                want = sgn * float(Ref(pt, 0).S(ref_obj))
                if np.isfinite(f) and np.isfinite(want) and not K.close(f, want, 1e-7, 1e-9):
                    return f"step {step}: objective handed to the solver gives {f} at {pt}, the current model gives {want}"
                for cd, (kind, l, r_) in zip(call.get("constraints") or [], ref_cons):
                    rs, v = LM.con_ref(Ref(pt, 0), kind, l, r_)
                    cf = float(cd["fun"](x))
                    if not K.close(abs(cf), abs(float(v)), 1e-7, 1e-9) or (rs == "<=" and abs(float(v)) > 1e-9 and (cf >= 0) != (float(v) <= 0)):
                        return f"step {step}: constraint ({kind}) handed to the solver gives {cf} at {pt}, the user's relation value is {float(v)}"
    for call in la[:1]:
        if len(call["c"]) != len(cols):
            return f"step {step}: linprog gets {len(call['c'])} columns but the current model mentions {cols}"
        for _ in range(6):
            p1, p2 = dict(val), dict(val)
            for n in cols:
                p1[n], p2[n] = rng.uniform(-1, 2), rng.uniform(-1, 2)
            lhs = float(np.dot(call["c"], [p1[n] for n in cols]) - np.dot(call["c"], [p2[n] for n in cols]))
            rhs = sgn * (float(Ref(p1, 0).S(ref_obj)) - float(Ref(p2, 0).S(ref_obj)))
            if not K.close(lhs, rhs, 1e-7, 1e-9):
                return f"step {step}: linprog cost {np.asarray(call['c']).tolist()} does not follow the current objective"
    return None


def _same(u, v):
    try:
        if u is None or v is None:
            return u is None and v is None
        if isinstance(u, str) or isinstance(v, str):
            return u == v
        a = np.array([[np.nan if t is None else float(t) for t in row] if isinstance(row, (list, tuple, np.ndarray)) else (np.nan if row is None else float(row)) for row in u], dtype=float)
        b = np.array([[np.nan if t is None else float(t) for t in row] if isinstance(row, (list, tuple, np.ndarray)) else (np.nan if row is None else float(row)) for row in v], dtype=float)
        return a.shape == b.shape and bool(np.all((np.isnan(a) & np.isnan(b)) | (a == b) | (np.abs(a - b) <= 1e-12)))
    except Exception:  # noqa: BLE001
        return False
