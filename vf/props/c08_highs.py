"""Stub validation (thorough tier, not the deciding step): the real
scipy.optimize.linprog on concrete instantiations of the linear solve models --
optyx vs an LP assembled independently from the reference interpreter."""
import random
import sys
import warnings

import numpy as np
from scipy.optimize import linprog

from vf.engine.recipes import Ref
from vf.props import lpmodels as LM
from vf.props import solving as SV


def ref_lp(model, val, cols):
    """assemble c, A, b by probing the reference formula (affine): f(e_i)-f(0)"""
    def ev(recipe, pt):
        r = Ref(pt, 0)
        return float(r.S(recipe))
    zero = dict(val)
    for n in cols:
        zero[n] = 0.0
    def affine(fn):
        f0 = fn(zero)
        g = []
        for n in cols:
            p = dict(zero)
            p[n] = 1.0
            g.append(fn(p) - f0)
        return np.array(g), f0
    c, c0 = affine(lambda pt: ev(model["obj"], pt))
    A_ub, b_ub, A_eq, b_eq = [], [], [], []
    for kind, l, r in model["cons"]:
        def val_fn(pt, kind=kind, l=l, r=r):
            ref = Ref(pt, 0)
            return float(LM.con_ref(ref, kind, l, r)[1])
        g, g0 = affine(val_fn)
        if kind == "eq":
            A_eq.append(g)
            b_eq.append(-g0)
        else:
            A_ub.append(g)
            b_ub.append(-g0)
    bounds = [LM.declared_bounds(model, n, val) for n in cols]
    return c, c0, A_ub, b_ub, A_eq, b_eq, bounds


def main():
    rng = random.Random(11)
    n = 0
    for model in [m for m in LM.solve_models("thorough") if m["tag"].startswith("lp")]:
        names = LM.model_names(model)
        for trial in range(12):
            val = {k: round(rng.uniform(-2, 2), 2) for k in names["syms"] + names["params"]}
            for k in list(val):
                if k.startswith("l"):
                    val[k] = -abs(val[k]) - 0.5
                if k.startswith("u"):
                    val[k] = abs(val[k]) + 0.5
            for v in names["vars"]:
                val[v] = 0.0
            p, b = LM.build_model(model, val)
            cols = [v.name for v in p.variables]
            if not p._is_linear_problem():
                # classified non-linear (allowed: linearity may be under-claimed, C04): auto takes the NLP route and
                # the explicit LP methods refuse; nothing reaches HiGHS
                continue
            for method in ("auto", "highs-ds"):
                with warnings.catch_warnings():
                    warnings.simplefilter("ignore")
                    sol = p.solve(method=method)
                c, c0, A_ub, b_ub, A_eq, b_eq, bounds = ref_lp(model, val, cols)
                s = 1.0 if model["sense"] == "min" else -1.0
                r = linprog(s * c, A_ub=np.array(A_ub) if A_ub else None, b_ub=np.array(b_ub) if b_ub else None,
                            A_eq=np.array(A_eq) if A_eq else None, b_eq=np.array(b_eq) if b_eq else None, bounds=bounds,
                            method="highs" if method == "auto" else method)
                want = {0: "OPTIMAL", 1: "MAX_ITERATIONS", 2: "INFEASIBLE", 3: "UNBOUNDED", 4: "FAILED"}[r.status]
                if sol.status.name != want:
                    print(f"MISMATCH {model['tag']} {method} data={val}: optyx {sol.status.name} vs reference {want}")
                    return 1
                if r.status == 0:
                    ref_obj = s * r.fun + c0
                    if abs(sol.objective_value - ref_obj) > 1e-7 * (1 + abs(ref_obj)):
                        print(f"MISMATCH {model['tag']} {method} data={val}: objective {sol.objective_value} vs {ref_obj}")
                        return 1
                n += 1
    print(f"{n} concrete LP instances agree with the independently assembled LP")
    return 0


if __name__ == "__main__":
    sys.exit(main())
