"""C08 - linear problems are solved to the true LP optimum with the true status
(the part optyx controls).

HiGHS itself is C++ behind FFI and cannot be encoded; it is modelled as an
arbitrary function of its input that honours the documented linprog contract
(stub S5).  What is decided here, for every linear-model recipe x orientation x
LP method and SYMBOLIC data:
  (a) the instance handed to linprog is the reference LP: for all x the passed
      rows/bounds hold iff the user's relations and declared bounds hold, and
      the passed cost is the user's objective direction (negated for maximise);
  (b) the requested method is the one passed;
  (c) a repeated solve hands over an equal instance;
  (d) the reply is mapped back correctly: status 0/2/3 -> OPTIMAL / INFEASIBLE /
      UNBOUNDED (1 -> MAX_ITERATIONS, 4 -> FAILED), objective un-negated with the
      constant restored, values aligned with the columns.
With HiGHS a function of its input, (a)-(d) imply agreement with an
independently assembled LP solved by the same solver."""
from __future__ import annotations

import numpy as np
import z3

from vf.engine.recipes import Ref
from vf.props import common as K
from vf.props import lpmodels as LM
from vf.props import solving as SV
from vf.props.common import harness_error, inconclusive, proved, violation

ID = "C08"
LEVEL = "model_checking"
ITEM_BUDGET_S = {"quick": 400, "thorough": 1500}
QT = {"quick": 15000, "thorough": 30000}
_TIER = "quick"
LPM = ["auto", "linprog", "highs", "highs-ds", "highs-ipm"]
STATUS_MAP = {0: "OPTIMAL", 1: "MAX_ITERATIONS", 2: "INFEASIBLE", 3: "UNBOUNDED", 4: "FAILED"}

META = dict(
    rule="one case = (linear model, orientation, LP method, obligation in {feasible-set equivalence, cost direction, method, repeat-solve equality, reply mapping per status}, path)",
    bounds={
        "quick": "every linear form of lpmodels.linear_forms (54) as objective (min and max) and as constraint lhs (5 sense kinds) under auto; the 10 linear solve models x 5 LP methods x reply mapping; <=3 constraints, n<=3, all data symbolic",
        "thorough": "adds pair models and the n=3 models",
    },
    outside=["HiGHS internals (same verdict on equivalent inputs is trusted, validated on concrete instances in the thorough tier only)", "rounding (S7)"],
    assumptions=["S5 linprog contract", "S1", "S2", "S7"],
    exhaustive_within_bounds=True,
)


def worker_init(tier, seed):
    global _TIER
    _TIER = tier


def linear_models(tier):
    ms = [m for m in LM.solve_models(tier) if m["tag"].startswith("lp")]
    return ms


def items(tier, seed):
    its = [("twin", 0)]
    for m in linear_models(tier):
        for meth in LPM:
            its.append(("inst", (m, meth)))
            its.append(("map", (m, meth)))
    for ch in K.chunks(LM.lp_models(tier), 8):
        its.append(("forms", ch))
    if tier == "thorough":
        its.append(("highs", 0))
    return its


def _dot(a, xs):
    s = 0.0
    for u, v in zip(a, xs):
        s = s + u * v
    return s


def _bt(x):
    from vf.engine.sym import sbool_term
    return sbool_term(x)


def instance_obligations(model, method, val, names, planted=False):
    """solve twice with a fixed non-success reply; compare what was passed"""
    from vf.engine import smt
    from vf.engine.sym import SReal, SymbolicConcretisation
    res = []
    allv = names["vars"] + names["syms"] + names["params"]
    tag = f"{model['tag']}/{method}"

    def run():
        o1 = SV.solve_observe(model, val, method, mode="fixed")
        o2 = SV.solve_observe(model, val, method, mode="fixed", problem=o1.problem, build=o1.build)
        # (d) the same problem object re-oriented with the SAME objective object (min <-> max), solved, flipped back, solved
        flip = None
        if o1.exc is None and o1.lcalls:
            pr = o1.problem
            obj = pr.objective
            mn, mx = pr.minimize, pr.maximize
            (mx if model["sense"] == "min" else mn)(obj)
            o3 = SV.solve_observe(model, val, method, mode="fixed", problem=pr, build=o1.build)
            (mn if model["sense"] == "min" else mx)(obj)
            o4 = SV.solve_observe(model, val, method, mode="fixed", problem=pr, build=o1.build)
            flip = (o3, o4)
        return o1, o2, flip

    for dec, labels, pc, (o1, o2, flip) in K.explore(run, max_paths=400):
        if o1.exc is not None:
            from optyx.core.errors import NonLinearError
            if isinstance(o1.exc, SymbolicConcretisation):
                res.append(harness_error(f"concretisation: {o1.exc}", item=tag))
            elif isinstance(o1.exc, NonLinearError) or "NonLinear" in type(o1.exc).__name__ or "Failed to extract" in str(o1.exc):
                res.append(dict(status="conformance", what=f"not treated as LP: {tag}", points=0))
            else:
                res.append(violation(f"C08|solve-raises:{type(o1.exc).__name__}", f"{tag}: solve raises {o1.exc}", dict(kind="raises", model=K.enc(model), method=method)))
            continue
        if not o1.lcalls:
            if method == "auto" and o1.mcalls:
                res.append(dict(status="conformance", what=f"auto did not route to LP: {tag}", points=0))
                continue
            res.append(violation("C08|no-linprog-call", f"{tag}: linprog was not called", dict(kind="raises", model=K.enc(model), method=method)))
            continue
        call = o1.lcalls[0]
        cols = [v.name for v in o1.problem.variables]
        payload = dict(kind="instance", model=K.enc(model), method=method)
        form = model["tag"].split(":")[1] if ":" in model["tag"] else model["tag"]
        xs = [val[n] for n in cols] if all(n in val for n in cols) else None
        if xs is None or len(call["c"]) != len(cols):
            res.append(violation(f"C08|columns|{form}", f"{tag}: {len(call['c'])} columns for variables {cols}", dict(payload, kind="raises")))
            continue
        # (b) method
        want = "highs" if method in ("auto", "linprog") else method
        if call["method"] != want:
            res.append(violation(f"C08|method|{method}", f"{tag}: linprog(method={call['method']!r}) for requested {method!r}", dict(payload, kind="raises")))
        else:
            res.append(proved(f"{tag}: method passed"))
        # (a) cost direction:  c.x - c.y == s * (obj(x) - obj(y))
        yv = {n: SReal.var("y_" + n) for n in names["vars"]}
        val2 = dict(val)
        val2.update(yv)
        r1, r2 = Ref(val, 0), Ref(val2, 0)
        s = 1.0 if model["sense"] == "min" else -1.0
        lhs = _dot(call["c"], xs) - _dot(call["c"], [val2[n] for n in cols]) + (1.0 if planted else 0.0)
        rhs = s * (r1.S(model["obj"]) - r2.S(model["obj"]))
        res.append(K.decide(smt.eq(lhs, rhs), pc, r1.dom + r2.dom, f"{tag}: passed cost == user's objective direction", f"C08|cost|{form}|{model['sense']}",
                            dict(payload, ob="cost"), allv + ["y_" + n for n in names["vars"]], QT[_TIER]))
        # (a) feasible set equivalence
        passed = []
        if call["A_ub"] is not None:
            for r in range(len(call["A_ub"])):
                passed.append(_bt(_dot(call["A_ub"][r], xs) <= call["b_ub"][r]))
        if call["A_eq"] is not None:
            for r in range(len(call["A_eq"])):
                passed.append(_bt(_dot(call["A_eq"][r], xs) == call["b_eq"][r]))
        bl = call["bounds"] if call["bounds"] is not None else [(0, None)] * len(cols)
        for i, (lb, ub) in enumerate(bl):
            if lb is not None:
                passed.append(_bt(xs[i] >= lb))
            if ub is not None:
                passed.append(_bt(xs[i] <= ub))
        user = []
        dom = []
        for sense, v, d in SV.user_constraint_values(model, val):
            user.append(_bt(v <= 0) if sense == "<=" else _bt(v == 0))
            dom += d
        for n in cols:
            lb, ub = LM.declared_bounds(model, n, val)
            if lb is not None:
                user.append(_bt(val[n] >= lb))
            if ub is not None:
                user.append(_bt(val[n] <= ub))
        P = z3.And(passed) if passed else z3.BoolVal(True)
        U = z3.And(user) if user else z3.BoolVal(True)
        if planted:
            U = z3.And(U, _bt(val[cols[0]] >= 1.0))
        res.append(K.decide(P == U, pc, dom, f"{tag}: passed feasible set == user's feasible set", f"C08|feasible-set|{form}",
                            dict(payload, ob="feasible"), allv, QT[_TIER]))
        # (c) repeated solve
        if not o2.lcalls:
            res.append(violation("C08|repeat-no-call", f"{tag}: second solve did not call linprog", dict(payload, kind="raises")))
        else:
            c2 = o2.lcalls[0]
            claims = []
            same = True
            for key in ("c", "A_ub", "b_ub", "A_eq", "b_eq"):
                a, b = call[key], c2[key]
                if (a is None) != (b is None):
                    same = False
                    continue
                if a is None:
                    continue
                fa, fb = np.asarray(a, dtype=object).reshape(-1), np.asarray(b, dtype=object).reshape(-1)
                if len(fa) != len(fb):
                    same = False
                    continue
                claims += [smt.eq(u, v) for u, v in zip(fa, fb)]
            if call["bounds"] is not None and c2["bounds"] is not None:
                for (l1, u1), (l2, u2) in zip(call["bounds"], c2["bounds"]):
                    for u, v in ((l1, l2), (u1, u2)):
                        if (u is None) != (v is None):
                            same = False
                        elif u is not None:
                            claims.append(smt.eq(u, v))
            if not same or c2["method"] != call["method"]:
                res.append(violation("C08|repeat-differs", f"{tag}: second solve passes a structurally different instance", dict(payload, kind="raises")))
            else:
                res.append(K.decide(claims, pc, [], f"{tag}: repeated solve passes an equal instance", "C08|repeat-differs-values", dict(payload, ob="repeat"), allv, QT[_TIER]))
        # (d) re-oriented solves: opposite orientation passes the NEGATED cost with the same rows; flipping back restores it
        if flip is not None:
            for nm, o, sg in (("opposite orientation", flip[0], -1.0), ("original orientation again", flip[1], 1.0)):
                if o.exc is not None or not o.lcalls:
                    res.append(violation("C08|flip-no-call", f"{tag}: solve after re-orienting ({nm}) did not call linprog ({o.exc!r})", dict(payload, kind="flip")))
                    continue
                cf = o.lcalls[0]
                claims, same = [], True
                if len(cf["c"]) != len(call["c"]):
                    same = False
                else:
                    claims += [smt.eq(u, sg * v) for u, v in zip(cf["c"], call["c"])]
                for key in ("A_ub", "b_ub", "A_eq", "b_eq"):
                    a, b = call[key], cf[key]
                    if (a is None) != (b is None) or (a is not None and np.shape(a) != np.shape(b)):
                        same = False
                    elif a is not None:
                        claims += [smt.eq(u, v) for u, v in zip(np.asarray(a, dtype=object).reshape(-1), np.asarray(b, dtype=object).reshape(-1))]
                if not same:
                    res.append(violation("C08|flip-differs", f"{tag}: {nm}: structurally different instance", dict(payload, kind="flip")))
                else:
                    res.append(K.decide(claims, pc, [], f"{tag}: {nm} with the same objective object passes the {'negated' if sg < 0 else 'same'} cost and the same rows",
                                        f"C08|flip-cost|{model['sense']}", dict(payload, kind="flip"), allv, QT[_TIER]))
    return res


def mapping_obligations(model, method, val, names):
    from vf.engine import smt
    from vf.engine.sym import SymbolicConcretisation
    res = []
    allv = names["vars"] + names["syms"] + names["params"]
    tag = f"{model['tag']}/{method}"
    allmodel = allv + [f"lp{k}_x{i}" for k in (1, 2) for i in range(12)]
    for dec, labels, pc, o in K.explore(lambda: SV.solve_observe(model, val, method), max_paths=3000):
        if o.exc is not None or not o.lcalls:
            continue
        st = None
        for l in labels:
            if l[0] == "c" and l[1] == "lp1.status":
                st = [0, 1, 2, 3, 4][l[2]]
        sol = o.solution
        payload = dict(kind="mapping", model=K.enc(model), method=method, labels=[list(l) for l in labels])
        if sol.status.name != STATUS_MAP[st]:
            res.append(violation(f"C08|status-map|{st}->{sol.status.name}", f"{tag}: linprog status {st} mapped to {sol.status.name}", payload))
        else:
            res.append(proved(f"{tag}: status {st} -> {sol.status.name}"))
        if sol.values:
            cols = [v.name for v in o.problem.variables]
            x = o.lcalls[0]
            # values aligned with the columns the reply was given in
            rep = [f"lp1_x{i}" for i in range(len(cols))]
            from vf.engine.sym import SReal
            claims = [smt.eq(sol.values[n], SReal.var(rep[i])) for i, n in enumerate(cols) if n in sol.values]
            if len(claims) != len(cols) or list(sol.values) != cols:
                res.append(violation("C08|values-keys", f"{tag}: values keys {list(sol.values)} vs columns {cols}", payload))
            else:
                res.append(K.decide(claims, pc, [], f"{tag}: values[i] == reply.x[i]", "C08|values-alignment", payload, allmodel, QT[_TIER]))
            if sol.objective_value is not None and all(n in sol.values for n in names["vars"] if n in cols):
                values = SV.complete_values(model, val, sol.values)
                if all(n in values for n in names["vars"]):
                    oref, dom = SV.ref_objective(model, values)
                    res.append(K.decide(smt.eq(sol.objective_value, oref), pc, dom, f"{tag}: objective un-negated, constant restored (status {st})",
                                        f"C08|objective-map|{model['sense']}", payload, allmodel, QT[_TIER]))
    return res


def check(item):
    kind, payload = item
    try:
        if kind in ("inst", "map"):
            m, meth = payload
            names = LM.model_names(m)
            val = K.sym_val(names["vars"] + names["syms"] + names["params"])
            return instance_obligations(m, meth, val, names) if kind == "inst" else mapping_obligations(m, meth, val, names)
        if kind == "forms":
            out = []
            for m in payload:
                names = LM.model_names(m)
                val = K.sym_val(names["vars"] + names["syms"] + names["params"])
                try:
                    out += instance_obligations(m, "auto", val, names)
                except Exception as e:  # noqa: BLE001
                    import traceback
                    out.append(harness_error(f"{type(e).__name__}: {e}", item=m["tag"], tb=traceback.format_exc()[-1200:]))
            return out
        if kind == "twin":
            out = []
            ms = {m["tag"]: m for m in LM.solve_models("quick")}
            m = ms["lp1-ge"]
            names = LM.model_names(m)
            val = K.sym_val(names["vars"] + names["syms"] + names["params"])
            rr = instance_obligations(m, "highs", val, names, planted=True)
            nv = sum(x["status"] == "violation" for x in rr)
            out.append(dict(status="conformance", what="twin refuted", points=1) if nv >= 2 else harness_error(f"reachability twin not refuted ({nv})"))
            return out
        if kind == "highs":
            return highs_validation()
    except Exception as e:  # noqa: BLE001
        import traceback
        return [harness_error(f"{type(e).__name__}: {e}", item=repr(payload)[:200], tb=traceback.format_exc()[-1500:])]
    raise ValueError(kind)


def highs_validation():
    """Validation of the stub only (not the deciding step): real linprog on
    concrete instantiations, optyx vs an independently assembled LP."""
    import subprocess
    import sys
    p = subprocess.run([sys.executable, "-m", "vf.props.c08_highs"], capture_output=True, text=True, timeout=900)
    last = (p.stdout.strip().splitlines() or [""])[-1]
    if p.returncode != 0:
        return [harness_error(f"real-HiGHS validation failed: {last} {p.stderr[-400:]}")]
    try:
        n = int(last.split()[0])
    except Exception:  # noqa: BLE001
        n = 0
    return [dict(status="conformance", what=f"real HiGHS validation: {last}", points=n)]


def replay(payload):
    import random
    from fractions import Fraction
    model = K.dec(payload["model"])
    method = payload["method"]
    names = LM.model_names(model)
    allv = names["vars"] + names["syms"] + names["params"]
    vals = {k: float(Fraction(v)) for k, v in payload.get("values", {}).items()}
    rng = random.Random(8)
    import types
    import warnings
    import scipy.optimize
    for attempt in range(8):
        val = {n: vals.get(n, 0.0) if attempt == 0 else rng.uniform(-1.5, 1.5) for n in allv}
        captured = []
        st = 0
        if payload["kind"] == "mapping":
            for l in payload["labels"]:
                if l[0] == "c" and l[1] == "lp1.status":
                    st = [0, 1, 2, 3, 4][l[2]]

        def fake_lp(c, **kw):
            captured.append(dict(c=np.array(c, dtype=float, copy=True), **{k_: (np.array(v_, dtype=float, copy=True) if isinstance(v_, np.ndarray) else v_) for k_, v_ in kw.items()}))
            x = np.array([vals.get(f"lp1_x{i}", 0.3 + 0.1 * i) if attempt == 0 else rng.uniform(-1, 1) for i in range(len(c))])
            return types.SimpleNamespace(x=x, fun=float(np.dot(c, x)), success=(st == 0), status=st, message="scripted", nit=1)

        old = scipy.optimize.linprog
        scipy.optimize.linprog = fake_lp
        try:
            p, b = LM.build_model(model, val)
            with warnings.catch_warnings():
                warnings.simplefilter("ignore")
                try:
                    sol = p.solve(method=method)
                    sol2 = p.solve(method=method)
                    if payload["kind"] == "flip":
                        obj = p.objective
                        (p.maximize if model["sense"] == "min" else p.minimize)(obj)
                        p.solve(method=method)
                        (p.minimize if model["sense"] == "min" else p.maximize)(obj)
                        p.solve(method=method)
                except Exception as e:  # noqa: BLE001
                    if payload["kind"] == "raises":
                        return True, f"solve raises {e!r}"
                    continue
        finally:
            scipy.optimize.linprog = old
        if not captured:
            continue
        call = captured[0]
        cols = [v.name for v in p.variables]
        if payload["kind"] == "flip":
            if len(captured) < 4:
                return True, f"only {len(captured)} linprog calls for 4 solves"
            for nm, cf, sg in (("opposite orientation", captured[2], -1.0), ("original orientation again", captured[3], 1.0)):
                if cf["c"].shape != call["c"].shape or not np.allclose(cf["c"], sg * call["c"], rtol=0, atol=1e-12):
                    return True, f"{nm} (same objective object): cost passed {cf['c'].tolist()}, expected {(sg * call['c']).tolist()}"
            continue
        if payload["kind"] != "mapping" and len(captured) >= 2:
            a, b = captured[0], captured[1]
            for key in ("c", "A_ub", "b_ub", "A_eq", "b_eq"):
                u, v = a.get(key), b.get(key)
                if (u is None) != (v is None) or (u is not None and not np.allclose(np.asarray(u, dtype=float), np.asarray(v, dtype=float), rtol=0, atol=1e-12)):
                    return True, f"the second solve of the same problem passes {key} = {np.asarray(v, dtype=float).tolist() if v is not None else None}, the first passed {np.asarray(u, dtype=float).tolist() if u is not None else None}"
        if payload["kind"] == "mapping":
            from optyx.solution import SolverStatus
            if sol.status.name != STATUS_MAP[st]:
                return True, f"status {st} mapped to {sol.status.name}"
            values = SV.complete_values(model, val, sol.values)
            oref, dom = SV.ref_objective(model, values)
            if sol.objective_value is not None and not K.close(sol.objective_value, float(oref), 1e-7, 1e-9):
                return True, f"objective_value {sol.objective_value} vs objective(values) {float(oref)}"
            continue
        # instance: compare on points drawn inside / around the declared boxes
        from vf.engine.recipes import Ref
        rd = Ref({n_: 1.0 for n_ in allv}, diff=0)
        rd.S(model["obj"])
        for _k, l_, r_ in model["cons"]:
            rd.S(l_)
            rd.S(r_)
        mentioned = [n for n in names["vars"] if n in rd.read or n in cols]
        boxes = {n: LM.declared_bounds(model, n, val) for n in mentioned}
        if attempt > 0 and any(lb is not None and ub is not None and lb > ub for lb, ub in boxes.values()):
            continue
        for _ in range(60):
            pt = dict(val)
            for n in names["vars"]:
                if _ == 0 and attempt == 0:
                    pt[n] = vals.get(n, 0.0)
                    continue
                lb, ub = boxes.get(n, (None, None))
                if rng.random() < 0.25:
                    pt[n] = rng.uniform(-2, 2)
                elif lb is not None and ub is not None:
                    pt[n] = lb + (ub - lb) * rng.uniform(0.05, 0.95)
                elif lb is not None:
                    pt[n] = lb + rng.uniform(0.05, 2)
                elif ub is not None:
                    pt[n] = ub - rng.uniform(0.05, 2)
                else:
                    pt[n] = rng.uniform(-2, 2)
            xs = np.array([pt[n] for n in cols])
            ok_p = True
            if call.get("A_ub") is not None:
                ok_p &= bool(np.all(np.asarray(call["A_ub"], dtype=float) @ xs <= np.asarray(call["b_ub"], dtype=float) + 1e-12))
            if call.get("A_eq") is not None:
                ok_p &= bool(np.all(np.abs(np.asarray(call["A_eq"], dtype=float) @ xs - np.asarray(call["b_eq"], dtype=float)) <= 1e-12))
            for i, (lb, ub) in enumerate(call.get("bounds") or [(0, None)] * len(cols)):
                if lb is not None:
                    ok_p &= xs[i] >= lb
                if ub is not None:
                    ok_p &= xs[i] <= ub
            ok_u = True
            margin = 1.0
            for sense, v, d in SV.user_constraint_values(model, pt):
                v = float(v)
                margin = min(margin, abs(v))
                ok_u &= (v <= 0) if sense == "<=" else (abs(v) <= 1e-12)
            for n in mentioned:
                lb, ub = boxes[n]
                if lb is not None:
                    ok_u &= pt[n] >= lb
                    margin = min(margin, abs(pt[n] - lb))
                if ub is not None:
                    ok_u &= pt[n] <= ub
                    margin = min(margin, abs(pt[n] - ub))
            if margin > 1e-6 and bool(ok_p) != bool(ok_u):
                return True, f"at {pt}: passed instance feasible={bool(ok_p)} but user's model feasible={bool(ok_u)}"
            # cost direction
            pt2 = dict(pt)
            for n in names["vars"]:
                pt2[n] = rng.uniform(-2, 2)
            s = 1.0 if model["sense"] == "min" else -1.0
            o1, _d = SV.ref_objective(model, pt)
            o2, _d = SV.ref_objective(model, pt2)
            lhs = float(np.dot(call["c"], xs) - np.dot(call["c"], np.array([pt2[n] for n in cols])))
            if not K.close(lhs, s * (float(o1) - float(o2)), 1e-7, 1e-9):
                return True, f"cost vector {call['c'].tolist()} does not follow the objective: {lhs} vs {s * (float(o1) - float(o2))}"
    return False, "no difference reproduced"
