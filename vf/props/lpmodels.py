"""Model recipes shared by the LP / solve properties (C05-C08, C13, C16, C18).

A model is a dict:
  obj    : scalar recipe
  sense  : 'min' | 'max'
  cons   : list of (kind, lhs, rhs) with kind in le, ge, eq, rle, rge
           (rle: `rhs_number <= lhs_expr` written with the number on the left)
           rhs is a scalar recipe or ('num', c)
  bounds : {name-of-scalar-or-container: (lb, ub)} with constants / ('sym', n) / None
  domains: {name: 'integer'|'binary'}
"""
from __future__ import annotations

from vf.engine.recipes import Build, Ref, cval, declare, free_names, kind_of
from vf.props import common as K

A_, X, Z = ("var", "a"), ("var", "x"), ("var", "z")   # 'a' sorts before v[..], 'z' after
V3 = ("vec", "v", 3)


def S(name):
    return ("sym", name)


def linear_forms():
    """(tag, recipe) for every API form of writing a linear expression"""
    v = V3
    M = ("mat", "A", 2, 2)
    F = []

    def add(tag, r):
        F.append((tag, r))

    add("c1*x+c2*z+c0", ("bin", "+", ("bin", "+", ("bin", "*", ("const", S("c1")), X), ("bin", "*", ("num", S("c2")), Z)), ("num", S("c0"))))
    add("x*c1", ("bin", "*", X, ("const", S("c1"))))
    add("x/c1", ("bin", "/", X, ("const", S("c1"))))
    add("-x", ("un", "neg", X))
    add("-(x+c0)", ("un", "neg", ("bin", "+", X, ("num", S("c0")))))
    add("(x+c0)**1", ("bin", "**", ("bin", "+", X, ("num", S("c0"))), ("const", 1)))
    add("(x+c0)**0", ("bin", "**", ("bin", "+", X, ("num", S("c0"))), ("const", 0)))
    add("(c1+c2)*x", ("bin", "*", ("bin", "+", ("const", S("c1")), ("const", S("c2"))), X))
    add("x*(c1-c2)", ("bin", "*", X, ("bin", "-", ("const", S("c1")), ("const", S("c2")))))
    add("c1*(x+c0)", ("bin", "*", ("const", S("c1")), ("bin", "+", X, ("num", S("c0")))))
    add("(x+c0)/c1", ("bin", "/", ("bin", "+", X, ("num", S("c0"))), ("const", S("c1"))))
    add("c0-x", ("bin", "-", ("num", S("c0")), X))
    add("x-z", ("bin", "-", X, Z))
    add("x+x", ("bin", "+", X, X))
    add("2*x+3*x", ("bin", "+", ("bin", "*", ("num", 2.0), X), ("bin", "*", ("num", 3.0), X)))
    add("const", ("const", S("c0")))
    add("c@v", ("lincomb", [S("k0"), S("k1"), S("k2")], v))
    add("v@c", ("lincomb", [S("k0"), S("k1"), S("k2")], v, "right"))
    add("v@list", ("lincomb", [S("k0"), 2.0, -1.0], v, "list"))
    add("c@(v+k)", ("lincomb", [S("k0"), S("k1"), S("k2")], ("vbin", "+", v, ("sc", S("c0")))))
    add("c@(2*v)", ("lincomb", [S("k0"), S("k1"), S("k2")], ("vbin", "*", v, ("sc", 2.0))))
    add("c@(v-w)", ("lincomb", [S("k0"), S("k1"), S("k2")], ("vbin", "-", v, ("vec", "w", 3))))
    add("c@v+c0", ("bin", "+", ("lincomb", [S("k0"), S("k1"), S("k2")], v), ("const", S("c0"))))
    add("c@v-c0", ("bin", "-", ("lincomb", [S("k0"), S("k1"), S("k2")], v), ("const", S("c0"))))
    add("c0+c@v", ("bin", "+", ("const", S("c0")), ("lincomb", [S("k0"), S("k1"), S("k2")], v)))
    add("c1*(c@v)", ("bin", "*", ("const", S("c1")), ("lincomb", [S("k0"), S("k1"), S("k2")], v)))
    add("sum(v)", ("vsum", v))
    add("sum(v)-c0", ("bin", "-", ("vsum", v), ("const", S("c0"))))
    add("sum(v)+c0", ("bin", "+", ("vsum", v), ("num", S("c0"))))
    add("c1*sum(v)", ("bin", "*", ("const", S("c1")), ("vsum", v)))
    add("sum(v)*c1", ("bin", "*", ("vsum", v), ("const", S("c1"))))
    add("sum(v)/c1", ("bin", "/", ("vsum", v), ("const", S("c1"))))
    add("-sum(v)", ("un", "neg", ("vsum", v)))
    add("sum(v)+x", ("bin", "+", ("vsum", v), X))
    add("sum(v)+a", ("bin", "+", ("vsum", v), A_))
    add("c@v+a", ("bin", "+", ("lincomb", [S("k0"), S("k1"), S("k2")], v), A_))
    add("c@v+z", ("bin", "+", ("lincomb", [S("k0"), S("k1"), S("k2")], v), Z))
    add("sum(v[0:2])", ("vsum", ("slice", v, 0, 2, None)))
    add("sum(v[1:3])", ("vsum", ("slice", v, 1, 3, None)))
    add("sum(v[::-1])", ("vsum", ("slice", v, None, None, -1)))
    add("c@v[::-1]", ("lincomb", [S("k0"), S("k1"), S("k2")], ("slice", v, None, None, -1)))
    add("c@v[1:3]", ("lincomb", [S("k0"), S("k1")], ("slice", v, 1, 3, None)))
    add("c@v[::2]", ("lincomb", [S("k0"), S("k1")], ("slice", v, 0, 3, 2)))
    add("sum(v)+sum(v[0:2])", ("bin", "+", ("vsum", v), ("vsum", ("slice", v, 0, 2, None))))
    add("sum(A[0,:])", ("vsum", ("mrow", M, 0)))
    add("c@A[:,1]", ("lincomb", [S("k0"), S("k1")], ("mcol", M, 1)))
    add("c@diag(A)", ("lincomb", [S("k0"), S("k1")], ("mdiag", M)))
    add("trace(A)", ("trace", M))
    add("sum(A.T[0,:])", ("vsum", ("mrow", ("mT", M), 0)))
    add("sum(S[1,:])", ("vsum", ("mrow", ("mat", "S", 2, 2, True), 1)))
    add("(A@u)[0]-lin", ("velem", ("matvec", [[S("k0"), 2.0, 0.0], [1.0, S("k1"), -1.0]], v), 1))
    add("sum(Mv)", ("vsum", ("matvec", [[S("k0"), 2.0, 0.0], [1.0, S("k1"), -1.0]], v)))
    add("v[0]+2*v[2]", ("bin", "+", ("velem", v, 0), ("bin", "*", ("num", 2.0), ("velem", v, 2))))
    # degree <= 1 through less common routes: powers / quotients of CONSTANT sub-expressions, dot products with
    # constant vectors, sums of vector expressions, matrix sums
    c1, c2 = ("const", S("c1")), ("const", S("c2"))
    add("x+c1**3", ("bin", "+", X, ("bin", "**", c1, ("const", 3))))
    add("(c1+1)**2*z", ("bin", "*", ("bin", "**", ("bin", "+", c1, ("num", 1.0)), ("const", 2)), Z))
    add("x*c1**2+c2**2", ("bin", "+", ("bin", "*", X, ("bin", "**", c1, ("const", 2))), ("bin", "**", c2, ("const", 2))))
    add("x/(c1+c2)", ("bin", "/", X, ("bin", "+", c1, c2)))
    add("(x+c0)/(c1*c2)", ("bin", "/", ("bin", "+", X, ("num", S("c0"))), ("bin", "*", c1, c2)))
    add("(c1/c2)*x", ("bin", "*", ("bin", "/", c1, c2), X))
    add("-(c1)*x", ("bin", "*", ("un", "neg", c1), X))
    add("v.consts", ("dot", v, ("vexpr", [("const", S("k0")), ("const", 2.0), ("const", S("k2"))])))
    add("consts.v", ("dot", ("vexpr", [("const", S("k0")), ("const", 2.0), ("const", S("k2"))]), v))
    add("sum(v*c1)", ("vsum", ("vbin", "*", v, ("sc", S("c1")))))
    add("sum(v+w)", ("vsum", ("vbin", "+", v, ("vec", "w", 3))))
    add("sum(c0-v)", ("vsum", ("vrbin", "-", ("sc", S("c0")), v)))
    add("sum(-v)", ("vsum", ("vneg", v)))
    add("sum(v/c1)", ("vsum", ("vbin", "/", v, ("sc", S("c1")))))
    add("(2v)[1]+c0", ("bin", "+", ("velem", ("vbin", "*", v, ("sc", 2.0)), 1), ("num", S("c0"))))
    add("sum(A)", ("msum", M))
    add("sum(A*c1+c0)", ("msum", ("mbin", "+", ("mbin", "*", M, ("sc", S("c1"))), ("sc", S("c0")))))
    add("sum(S)", ("msum", ("mat", "S", 2, 2, True)))
    add("sum(A.T-A2)", ("msum", ("mbin", "-", ("mT", M), ("arr2", [[S("k0"), 1.0], [2.0, S("k1")]]))))
    add("sum(S[0:2,0:1])", ("msum", ("mslice", ("mat", "S", 2, 2, True), (0, 2, None), (0, 1, None))))
    # coefficient arrays of other NumPy dtypes (unsigned / signed integers, float32)
    add("u8@v", ("lincomb", [3.0, 1.0, 2.0], v, "uint8"))
    add("u8@v-c0", ("bin", "-", ("lincomb", [3.0, 0.0, 2.0], v, "uint16"), ("const", S("c0"))))
    add("i64@v", ("lincomb", [3.0, -1.0, 2.0], v, "int64"))
    add("f32@v", ("lincomb", [0.5, -1.0, 2.0], v, "float32"))
    add("c0-sum(v)", ("bin", "-", ("num", S("c0")), ("vsum", v)))
    add("c0-c@v", ("bin", "-", ("const", S("c0")), ("lincomb", [S("k0"), S("k1"), S("k2")], v)))
    add("c0+sum(v)", ("bin", "+", ("num", S("c0")), ("vsum", v)))
    add("c1*(c0-sum(v))", ("bin", "*", ("const", S("c1")), ("bin", "-", ("num", S("c0")), ("vsum", v))))
    add("sum(v**1)", ("vsum", ("vpow", v, 1)))
    add("sum(v**1)-c0", ("bin", "-", ("vsum", ("vpow", v, 1)), ("const", S("c0"))))
    add("c1*sum(v[0:2]**1)+x", ("bin", "+", ("bin", "*", c1, ("vsum", ("vpow", ("slice", v, 0, 2, None), 1))), X))
    add("sum(v**0)+x", ("bin", "+", ("vsum", ("vpow", v, 0)), X))
    add("0*x+z", ("bin", "+", ("bin", "*", ("num", 0.0), X), Z))
    add("x-x+z", ("bin", "+", ("bin", "-", X, X), Z))
    return F


def build_model(model, val):
    """-> (Problem, Build)"""
    from optyx import Problem
    b = Build(val, bounds={k: tuple(cval(x, val) if x is not None else None for x in v) for k, v in model.get("bounds", {}).items()},
              domains=model.get("domains", {}))
    if model.get("vparam"):
        b.vparam_names = list(model["vparam"])
    if model.get("share"):
        # equal sub-recipes denote ONE expression object (e = w @ x; lo <= e; e <= hi), as a user would write them
        orig, memo = b.S, {}

        def shared(r):
            k = repr(r)
            if k not in memo:
                memo[k] = orig(r)
            return memo[k]
        b.S = shared
    rs = [model["obj"]] + [c[1] for c in model["cons"]] + [c[2] for c in model["cons"]]
    for r in rs:
        for d in declare(r):
            (b.V if d[0] == "vec" else b.M)(d)
    p = Problem()
    obj = b.S(model["obj"])
    (p.minimize if model["sense"] == "min" else p.maximize)(obj)
    for kind, lhs, rhs in model["cons"]:
        p.subject_to(make_constraint(b, kind, lhs, rhs))
    return p, b


HISTS = ["add-last", "add-last-list", "flip-sense", "reobj", "readd-same-objective", "narrow-first"]


def build_model_staged(model, val, hist):
    """The same final model reached through an edit history:
      -> (Problem in its FIRST state, Build, finish) where finish() applies the
    remaining edits; after finish() the problem is `model` exactly.
      add-last / add-last-list   the last constraint is added after the first solve (single / list form)
      flip-sense                 first state has the opposite sense with the SAME objective object
      reobj                      first state has another objective (2*obj + 1)
      readd-same-objective       first state lacks the last constraint; afterwards the same objective
                                 object is set again and then the constraint is added
      narrow-first               first state is the problem  min lhs-rhs of constraint 0  s.t. constraint 0  (it may see
                                 fewer variables, in other columns); then the objective is set and the other constraints added"""
    from optyx import Problem
    bval = val
    if hist == "param-update":
        # 'param-update': the model is built and solved at OLD parameter values (val[name + "@old"]); finish() sets every
        # parameter to its current value val[name]
        bval = dict(val)
        for n_ in model_names(model)["params"]:
            bval[n_] = val[n_ + "@old"]
    b = Build(bval, bounds={k: tuple(cval(x, val) if x is not None else None for x in v) for k, v in model.get("bounds", {}).items()},
              domains=model.get("domains", {}))
    rs = [model["obj"]] + [c[1] for c in model["cons"]] + [c[2] for c in model["cons"]]
    for r in rs:
        for d in declare(r):
            (b.V if d[0] == "vec" else b.M)(d)
    p = Problem()
    obj = b.S(model["obj"])
    setter = lambda sense: (p.minimize if sense == "min" else p.maximize)  # noqa: E731
    other = "max" if model["sense"] == "min" else "min"
    cons = [make_constraint(b, kind, lhs, rhs) for kind, lhs, rhs in model["cons"]]
    late = []
    if hist in ("add-last", "add-last-list", "readd-same-objective") and cons:
        late = [cons.pop()]
    if hist == "narrow-first" and cons:
        late = cons[1:]
        cons = cons[:1]
        first_obj = b.S(model["cons"][0][1]) - b.S(model["cons"][0][2])
        if hasattr(first_obj, "get_variables") and first_obj.get_variables():
            p.minimize(first_obj)
        else:
            setter(model["sense"])(obj)
    elif hist == "flip-sense":
        setter(other)(obj)
    elif hist == "reobj":
        setter(model["sense"])(obj * 2.0 + 1.0)
    else:
        setter(model["sense"])(obj)
    for c in cons:
        p.subject_to(c)

    def finish():
        if hist == "param-update":
            for n_, po in b.params.items():
                po.set(val[n_])
        if hist in ("flip-sense", "reobj", "readd-same-objective", "narrow-first"):
            setter(model["sense"])(obj)
        for c in late:
            p.subject_to([c] if hist == "add-last-list" else c)
    return p, b, finish


def make_constraint(b, kind, lhs, rhs):
    L = b.S(lhs)
    Rr = b.S(rhs)
    if kind == "le":
        return L <= Rr
    if kind == "ge":
        return L >= Rr
    if kind == "eq":
        return L.eq(Rr)
    if kind == "rle":   # number on the left:  rhs <= lhs
        return Rr <= L
    if kind == "rge":   # rhs >= lhs
        return Rr >= L
    raise ValueError(kind)


def con_ref(ref, kind, lhs, rhs):
    """(sense, value) of the user's relation in normal form  `value sense 0`
    where value = smaller side - larger side for inequalities"""
    l = ref.S(lhs)
    r = ref.S(rhs)
    if kind == "le":      # lhs <= rhs
        return "<=", l - r
    if kind == "ge":      # lhs >= rhs  <=>  rhs - lhs <= 0
        return "<=", r - l
    if kind == "rle":     # rhs <= lhs
        return "<=", r - l
    if kind == "rge":     # rhs >= lhs
        return "<=", l - r
    if kind == "eq":
        return "==", l - r
    raise ValueError(kind)


def model_names(model):
    acc = None
    for r in [model["obj"]] + [c[1] for c in model["cons"]] + [c[2] for c in model["cons"]]:
        acc = free_names(r, acc)
    for k, (lb, ub) in model.get("bounds", {}).items():
        for x in (lb, ub):
            if isinstance(x, tuple) and x[0] == "sym" and x[1] not in acc["syms"]:
                acc["syms"].append(x[1])
    return acc


def declared_bounds(model, name, val):
    """declared (lb, ub) of variable `name` under the model's bounds spec"""
    bd = model.get("bounds", {})
    dom = model.get("domains", {})
    base = name.split("[")[0]
    key = name if name in bd else base if base in bd else None
    d = dom.get(name, dom.get(base))
    if d == "binary":
        return 0.0, 1.0
    if key is None:
        return None, None
    lb, ub = bd[key]
    return (cval(lb, val) if lb is not None else None, cval(ub, val) if ub is not None else None)


def lp_models(tier="quick"):
    forms = linear_forms()
    out = []
    simple_obj = ("bin", "+", X, ("bin", "*", ("num", 2.0), Z))
    vobj = ("vsum", V3)
    std_bounds = {"x": (S("lx"), S("ux")), "z": (0.0, None), "v": (S("lv"), None), "a": (None, S("ua")), "A": (0.0, 1.0), "S": (None, None), "w": (S("lw"), S("uw"))}
    for tag, f in forms:
        for sense in ("min", "max"):
            out.append(dict(tag=f"obj:{tag}:{sense}", obj=f, sense=sense,
                            cons=[("le", ("bin", "+", X, Z), ("num", S("r0"))), ("ge", X, ("num", 0.0))], bounds=std_bounds))
        # the objective alone / with constraints on the same vector only: the problem's variables are
        # exactly the form's variables, so the whole-vector shortcuts of the extractor are HIT
        out.append(dict(tag=f"objonly:{tag}:min", obj=f, sense="min", cons=[], bounds=std_bounds))
        out.append(dict(tag=f"objonly:{tag}:max", obj=f, sense="max", cons=[], bounds=std_bounds))
        out.append(dict(tag=f"objv:{tag}:min", obj=f, sense="min", cons=[("ge", ("vsum", V3), ("num", S("r0"))), ("le", ("velem", V3, 0), ("num", S("r1")))], bounds=std_bounds))
        kinds = ("le", "ge", "eq", "rle", "rge")
        for kind in kinds:
            for base_obj in ((simple_obj, "s"), (vobj, "v")):
                out.append(dict(tag=f"con:{tag}:{kind}:{base_obj[1]}", obj=base_obj[0], sense="min",
                                cons=[(kind, f, ("num", S("r1")))], bounds=std_bounds))
        # expression on both sides, three constraints of different senses
        out.append(dict(tag=f"con2:{tag}", obj=simple_obj, sense="max",
                        cons=[("le", f, Z), ("eq", ("bin", "+", f, ("num", 1.0)), ("num", S("r2"))), ("ge", f, ("bin", "*", ("num", 2.0), X))],
                        bounds=std_bounds))
    # views of ONE vector that print alike: a strided slice keeps the name of the plain slice
    # ("u[0:4]"), a reversed one the name of the whole vector; objective and constraints written on
    # different views of u (the whole-vector shortcut must not conflate them)
    U = ("vec", "u", 4)
    ev, full, rev, ends = ("slice", U, 0, 4, 2), ("slice", U, 0, 4, None), ("slice", U, None, None, -1), ("slice", U, 0, 4, 3)
    ub = dict(std_bounds, u=(S("lw"), S("uw")))
    k4 = [S("k0"), S("k1"), S("k2"), 1.0]
    for sense in ("min", "max"):
        out.append(dict(tag=f"view:strided-obj/full-cons:{sense}", obj=("lincomb", [3.0, S("k0")], ev), sense=sense,
                        cons=[("le", ("lincomb", [1.0, -1.0, S("k1"), -1.0], full), ("num", S("r0"))), ("le", ("vsum", full), ("num", S("r1")))], bounds=ub))
        out.append(dict(tag=f"view:full-obj/strided-cons:{sense}", obj=("lincomb", k4, full), sense=sense,
                        cons=[("ge", ("vsum", ev), ("num", S("r0"))), ("le", ("lincomb", [S("k1"), 2.0], ends), ("num", S("r1")))], bounds=ub))
        out.append(dict(tag=f"view:reversed-obj/whole-cons:{sense}", obj=("lincomb", k4, rev), sense=sense,
                        cons=[("le", ("lincomb", k4, U), ("num", S("r0"))), ("eq", ("vsum", rev), ("num", S("r1")))], bounds=ub))
        out.append(dict(tag=f"view:strided-obj/strided-cons:{sense}", obj=("vsum", ev), sense=sense,
                        cons=[("le", ("vsum", ends), ("num", S("r0")))], bounds=ub))
        out.append(dict(tag=f"view:strided-obj-only:{sense}", obj=("bin", "+", ("vsum", ev), ("lincomb", [2.0, S("k0")], ev)), sense=sense, cons=[], bounds=ub))
    # ONE expression object used in several constraints (a range lo <= e <= hi), plain float64 coefficient arrays
    w64 = [0.5, -1.25, 3.0]
    for tag, e in (("f64@v", ("lincomb", w64, V3)), ("v@f64", ("lincomb", w64, V3, "right")), ("f64@v-c0", ("bin", "-", ("lincomb", w64, V3), ("const", S("c0")))),
                   ("sum(v)", ("vsum", V3)), ("f64@v[::-1]", ("lincomb", w64, ("slice", V3, None, None, -1))), ("2*x+z", ("bin", "+", ("bin", "*", ("num", 2.0), X), Z))):
        for sense in ("min", "max"):
            out.append(dict(tag=f"range:{tag}:{sense}", share=True, obj=("vsum", V3) if "v" in tag else simple_obj, sense=sense,
                            cons=[("ge", e, ("num", S("r0"))), ("le", e, ("num", S("r1")))], bounds=std_bounds))
            out.append(dict(tag=f"range-rev:{tag}:{sense}", share=True, obj=e, sense=sense,
                            cons=[("le", e, ("num", S("r1"))), ("ge", e, ("num", S("r0"))), ("eq", e, ("num", S("r2")))], bounds=std_bounds))
        out.append(dict(tag=f"ge-only:{tag}", obj=("vsum", V3) if "v" in tag else simple_obj, sense="min", cons=[("ge", e, ("num", S("r0")))], bounds=std_bounds))
    if tier == "thorough":
        for (t1, f1) in forms:
            for (t2, f2) in forms[::3]:
                out.append(dict(tag=f"pair:{t1}|{t2}", obj=f1, sense="min", cons=[("le", f2, ("num", S("r1"))), ("ge", f1, f2)], bounds=std_bounds))
    return out


# ==========================================================================
# models for the solve properties (C06-C09, C12, C13, C18, C20)
# ==========================================================================
Y = ("var", "y")


def solve_models(tier="quick"):
    """small models covering LP and NLP routes, 0-3 constraints of each sense,
    bounds present / absent, scalar / vector / matrix variables"""
    v2 = ("vec", "v", 2)
    bx = {"x": (S("lx"), S("ux")), "y": (0.0, None), "v": (S("lv"), S("uv"))}
    nb = {}
    sq = lambda e: ("bin", "**", e, ("const", 2))  # noqa: E731
    M = []

    def add(tag, obj, sense, cons, bounds):
        M.append(dict(tag=tag, obj=obj, sense=sense, cons=cons, bounds=bounds))

    quad = ("bin", "+", sq(("bin", "-", X, ("num", S("c1")))), sq(Y))
    # --- nonlinear objective
    add("nlp0", quad, "min", [], bx)
    add("nlp0-nobounds", quad, "min", [], nb)
    add("nlp0-max", ("un", "neg", quad), "max", [], bx)
    add("nlp1-ge", quad, "min", [("ge", ("bin", "+", X, Y), ("num", S("r0")))], bx)
    add("nlp1-le", quad, "min", [("le", ("bin", "-", X, Y), ("num", S("r0")))], nb)
    add("nlp1-eq", quad, "min", [("eq", ("bin", "+", X, ("bin", "*", ("num", 2.0), Y)), ("num", S("r0")))], bx)
    add("nlp2-infeasible-shape", ("bin", "*", X, X), "min", [("ge", X, ("num", S("r0"))), ("le", X, ("num", S("r1")))], nb)
    add("nlp3", quad, "min", [("ge", X, ("num", S("r0"))), ("le", Y, ("num", S("r1"))), ("eq", ("bin", "*", X, Y), ("num", S("r2")))], bx)
    # constraint 0 mentions only y: a problem that first saw constraint 0 alone has y in column 0
    add("nlp-late-x", quad, "min", [("ge", Y, ("num", S("r0"))), ("le", ("bin", "+", X, Y), ("num", S("r1")))], bx)
    add("nlp-rle", quad, "max", [("rle", X, ("num", S("r0"))), ("rge", Y, ("num", S("r1")))], bx)
    add("nlp-exp", ("bin", "+", ("un", "exp", X), ("bin", "*", ("const", S("c1")), Y)), "min", [("ge", ("bin", "+", X, Y), ("num", 1.0))], bx)
    add("nlp-vec", ("bin", "+", ("vsum", ("vpow", v2, 2)), ("const", S("c0"))), "min", [("ge", ("vsum", v2), ("num", S("r0")))], bx)
    add("nlp-dot", ("dot", v2, v2), "max", [("le", ("lincomb", [S("k0"), 1.0], v2), ("num", S("r0")))], nb)
    add("nlp-quadform", ("quad", v2, [[2.0, S("q")], [0.0, 1.0]]), "min", [("eq", ("vsum", v2), ("num", 1.0))], bx)
    # two different constraints that PRINT alike (vector nodes abbreviate their repr) with the same right-hand side
    add("nlp-twin-rows", ("vsum", ("vpow", v2, 2)), "min", [("le", ("lincomb", [1.0, S("k0")], v2), ("num", S("r0"))), ("le", ("lincomb", [S("k1"), 1.0], v2), ("num", S("r0")))], nb)
    # bounds given as NumPy scalars of several types and as Python ints
    npb = {"x": (("np", "int64", 0), ("np", "int32", 2)), "y": (("np", "float32", -1.0), ("py", "int", 3))}
    add("nlp-npbounds", quad, "min", [("ge", ("bin", "+", X, Y), ("num", S("r0")))], npb)
    add("nlp-param", ("bin", "+", ("bin", "*", ("param", "p"), X), sq(X)), "min", [("le", X, ("param", "p2"))], bx)
    add("nlp-param-coef-con", quad, "min", [("le", ("bin", "+", ("bin", "*", ("param", "p"), X), Y), ("num", S("r0"))), ("ge", ("bin", "-", X, ("bin", "*", ("param", "p2"), Y)), ("num", S("r1")))], nb)
    add("nlp-param-coef-obj", ("bin", "+", ("bin", "*", ("param", "p"), X), ("bin", "*", ("param", "p2"), Y)), "max", [("le", ("bin", "+", sq(X), sq(Y)), ("param", "p"))], bx)
    add("nlp-con-nonlinear", ("bin", "+", X, Y), "min", [("le", ("bin", "+", sq(X), sq(Y)), ("num", S("r0")))], bx)
    add("nlp-matrix", ("fro", ("mat", "A", 2, 2)), "min", [("ge", ("trace", ("mat", "A", 2, 2)), ("num", S("r0")))], {"A": (S("lA"), None)})
    # --- linear models (LP route on auto)
    lin = ("bin", "+", ("bin", "+", ("bin", "*", ("const", S("c1")), X), ("bin", "*", ("num", S("c2")), Y)), ("num", S("c0")))
    add("lp0", lin, "min", [], bx)
    add("lp-npbounds", lin, "max", [("le", ("bin", "+", X, Y), ("num", S("r0")))], npb)
    add("lp1-ge", lin, "min", [("ge", ("bin", "+", X, Y), ("num", S("r0")))], bx)
    add("lp1-le-max", lin, "max", [("le", ("bin", "+", X, Y), ("num", S("r0")))], bx)
    add("lp2-eq", lin, "min", [("eq", ("bin", "-", X, Y), ("num", S("r0"))), ("ge", X, ("num", S("r1")))], nb)
    add("lp3", lin, "max", [("le", X, ("num", S("r0"))), ("ge", Y, ("num", S("r1"))), ("eq", ("bin", "+", X, Y), ("num", S("r2")))], bx)
    add("lp-late-x", lin, "min", [("le", Y, ("num", S("r0"))), ("ge", ("bin", "+", X, Y), ("num", S("r1")))], bx)
    add("lp-infeasible-shape", X, "min", [("ge", X, ("num", S("r0"))), ("le", X, ("num", S("r1")))], nb)
    add("lp-vec", ("bin", "+", ("lincomb", [S("k0"), S("k1")], v2), ("const", S("c0"))), "min", [("ge", ("vsum", v2), ("num", S("r0")))], bx)
    add("lp-vec-max", ("vsum", v2), "max", [("le", ("lincomb", [S("k0"), S("k1")], v2), ("num", S("r0"))), ("rle", ("velem", v2, 0), ("num", S("r1")))], bx)
    add("lp-const-in-con", ("bin", "-", X, Y), "min", [("le", ("lincomb", [S("k0"), S("k1")], ("vbin", "+", v2, ("sc", S("c0")))), ("num", S("r0")))], bx)
    # top-level objective nodes that carry a constant inside a vector expression
    add("lp-lincomb-shift", ("lincomb", [S("k0"), S("k1")], ("vbin", "-", v2, ("arr", [S("c0"), 1.0]))), "min", [("ge", ("vsum", v2), ("num", S("r0")))], bx)
    add("lp-vsum-shift-max", ("vsum", ("vbin", "+", ("vbin", "*", v2, ("sc", 2.0)), ("sc", S("c0")))), "max", [("le", ("lincomb", [1.0, S("k1")], v2), ("num", S("r0")))], bx)
    # the constant written first (reflected subtraction) over a vector that covers all variables
    add("lp-const-minus-sum", ("bin", "-", ("num", S("c0")), ("vsum", v2)), "min", [("ge", ("bin", "-", ("num", S("r0")), ("lincomb", [S("k0"), 1.0], v2)), ("num", 0.0))], bx)
    add("lp-const-minus-lincomb-max", ("bin", "-", ("const", S("c0")), ("lincomb", [S("k0"), S("k1")], v2)), "max", [("le", ("vsum", v2), ("num", S("r0")))], bx)
    # constraints that are affine but written with quotients / products of CONSTANT sub-expressions (constant terms in
    # the numerator): whichever route they are sent to, the relation must be the one written
    cden = ("bin", "*", ("const", 2.0), ("const", S("c1")))
    add("lp-quot-constexpr", lin, "max", [("le", ("bin", "/", ("bin", "+", X, ("num", S("c0"))), cden), ("num", S("r0"))),
                                          ("le", ("bin", "+", Y, ("bin", "/", ("num", 4.0), cden)), ("num", S("r1")))], bx)
    add("lp-quot-constexpr-ge", ("bin", "+", X, Y), "min", [("ge", ("bin", "/", ("bin", "+", ("bin", "*", ("num", 2.0), X), ("num", 3.0)), ("bin", "+", ("const", 1.0), ("const", S("c1")))), ("num", S("r0"))),
                                                             ("ge", Y, ("num", S("r1")))], nb)
    add("lp-mixed", ("bin", "+", ("vsum", v2), X), "min", [("ge", ("bin", "+", ("velem", v2, 1), X), ("num", S("r0")))], bx)
    if tier == "thorough":
        v3 = ("vec", "v", 3)
        add("nlp-vec3", ("bin", "+", ("vsum", ("vpow", v3, 2)), ("norm", v3, 2)), "min", [("ge", ("vsum", v3), ("num", S("r0"))), ("le", ("velem", v3, 0), ("velem", v3, 2))], bx)
        add("lp-vec3", ("lincomb", [S("k0"), S("k1"), S("k2")], v3), "max", [("le", ("vsum", v3), ("num", S("r0"))), ("ge", ("velem", v3, 1), ("num", 0.0)), ("eq", ("bin", "-", ("velem", v3, 0), ("velem", v3, 2)), ("num", S("r1")))], bx)
        add("nlp-sym", ("msum", ("mbin", "*", ("mat", "S", 2, 2, True), ("mat", "S", 2, 2, True))), "min", [("ge", ("trace", ("mat", "S", 2, 2, True)), ("num", 1.0))], {"S": (None, S("uS"))})
    return M


METHODS = ["auto", "linprog", "highs", "highs-ds", "highs-ipm", "SLSQP", "trust-constr", "L-BFGS-B"]
LP_METHODS = {"linprog", "highs", "highs-ds", "highs-ipm"}
# methods that do not take bounds (BFGS) / take bounds but no derivatives (Nelder-Mead): the '...' of the property texts
EXTRA_METHODS = ["BFGS", "Nelder-Mead"]
