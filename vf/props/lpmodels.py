"""Model recipes shared by the LP / solve properties (C05-C08, C13, C16, C18).

A model is a dict:
  obj    : scalar recipe
  sense  : 'min' | 'max'
  cons   : list of (kind, lhs, rhs) with kind in le, ge, eq, rle, rge
           (rle: `rhs_number <= lhs_expr` written with the number on the left)
           rhs is a scalar recipe or ('num', c)
  bounds : {name-of-scalar-or-container: (lb, ub)} with constants / ('sym', n) / None
  domains: {name: 'integer'|'binary'}
"""
from __future__ import annotations

from vf.engine.recipes import Build, Ref, cval, declare, free_names, kind_of
from vf.props import common as K

A_, X, Z = ("var", "a"), ("var", "x"), ("var", "z")   # 'a' sorts before v[..], 'z' after
V3 = ("vec", "v", 3)


def S(name):
    return ("sym", name)


def linear_forms():
    """(tag, recipe) for every API form of writing a linear expression"""
    v = V3
    M = ("mat", "A", 2, 2)
    F = []

    def add(tag, r):
        F.append((tag, r))

    add("c1*x+c2*z+c0", ("bin", "+", ("bin", "+", ("bin", "*", ("const", S("c1")), X), ("bin", "*", ("num", S("c2")), Z)), ("num", S("c0"))))
    add("x*c1", ("bin", "*", X, ("const", S("c1"))))
    add("x/c1", ("bin", "/", X, ("const", S("c1"))))
    add("-x", ("un", "neg", X))
    add("-(x+c0)", ("un", "neg", ("bin", "+", X, ("num", S("c0")))))
    add("(x+c0)**1", ("bin", "**", ("bin", "+", X, ("num", S("c0"))), ("const", 1)))
    add("(x+c0)**0", ("bin", "**", ("bin", "+", X, ("num", S("c0"))), ("const", 0)))
    add("(c1+c2)*x", ("bin", "*", ("bin", "+", ("const", S("c1")), ("const", S("c2"))), X))
    add("x*(c1-c2)", ("bin", "*", X, ("bin", "-", ("const", S("c1")), ("const", S("c2")))))
    add("c1*(x+c0)", ("bin", "*", ("const", S("c1")), ("bin", "+", X, ("num", S("c0")))))
    add("(x+c0)/c1", ("bin", "/", ("bin", "+", X, ("num", S("c0"))), ("const", S("c1"))))
    add("c0-x", ("bin", "-", ("num", S("c0")), X))
    add("x-z", ("bin", "-", X, Z))
    add("x+x", ("bin", "+", X, X))
    add("2*x+3*x", ("bin", "+", ("bin", "*", ("num", 2.0), X), ("bin", "*", ("num", 3.0), X)))
    add("const", ("const", S("c0")))
    add("c@v", ("lincomb", [S("k0"), S("k1"), S("k2")], v))
    add("v@c", ("lincomb", [S("k0"), S("k1"), S("k2")], v, "right"))
    add("v@list", ("lincomb", [S("k0"), 2.0, -1.0], v, "list"))
    add("c@(v+k)", ("lincomb", [S("k0"), S("k1"), S("k2")], ("vbin", "+", v, ("sc", S("c0")))))
    add("c@(2*v)", ("lincomb", [S("k0"), S("k1"), S("k2")], ("vbin", "*", v, ("sc", 2.0))))
    add("c@(v-w)", ("lincomb", [S("k0"), S("k1"), S("k2")], ("vbin", "-", v, ("vec", "w", 3))))
    add("c@v+c0", ("bin", "+", ("lincomb", [S("k0"), S("k1"), S("k2")], v), ("const", S("c0"))))
    add("c@v-c0", ("bin", "-", ("lincomb", [S("k0"), S("k1"), S("k2")], v), ("const", S("c0"))))
    add("c0+c@v", ("bin", "+", ("const", S("c0")), ("lincomb", [S("k0"), S("k1"), S("k2")], v)))
    add("c1*(c@v)", ("bin", "*", ("const", S("c1")), ("lincomb", [S("k0"), S("k1"), S("k2")], v)))
    add("sum(v)", ("vsum", v))
    add("sum(v)-c0", ("bin", "-", ("vsum", v), ("const", S("c0"))))
    add("sum(v)+c0", ("bin", "+", ("vsum", v), ("num", S("c0"))))
    add("c1*sum(v)", ("bin", "*", ("const", S("c1")), ("vsum", v)))
    add("sum(v)*c1", ("bin", "*", ("vsum", v), ("const", S("c1"))))
    add("sum(v)/c1", ("bin", "/", ("vsum", v), ("const", S("c1"))))
    add("-sum(v)", ("un", "neg", ("vsum", v)))
    add("sum(v)+x", ("bin", "+", ("vsum", v), X))
    add("sum(v)+a", ("bin", "+", ("vsum", v), A_))
    add("c@v+a", ("bin", "+", ("lincomb", [S("k0"), S("k1"), S("k2")], v), A_))
    add("c@v+z", ("bin", "+", ("lincomb", [S("k0"), S("k1"), S("k2")], v), Z))
    add("sum(v[0:2])", ("vsum", ("slice", v, 0, 2, None)))
    add("sum(v[1:3])", ("vsum", ("slice", v, 1, 3, None)))
    add("sum(v[::-1])", ("vsum", ("slice", v, None, None, -1)))
    add("c@v[::-1]", ("lincomb", [S("k0"), S("k1"), S("k2")], ("slice", v, None, None, -1)))
    add("c@v[1:3]", ("lincomb", [S("k0"), S("k1")], ("slice", v, 1, 3, None)))
    add("c@v[::2]", ("lincomb", [S("k0"), S("k1")], ("slice", v, 0, 3, 2)))
    add("sum(v)+sum(v[0:2])", ("bin", "+", ("vsum", v), ("vsum", ("slice", v, 0, 2, None))))
    add("sum(A[0,:])", ("vsum", ("mrow", M, 0)))
    add("c@A[:,1]", ("lincomb", [S("k0"), S("k1")], ("mcol", M, 1)))
    add("c@diag(A)", ("lincomb", [S("k0"), S("k1")], ("mdiag", M)))
    add("trace(A)", ("trace", M))
    add("sum(A.T[0,:])", ("vsum", ("mrow", ("mT", M), 0)))
    add("sum(S[1,:])", ("vsum", ("mrow", ("mat", "S", 2, 2, True), 1)))
    add("(A@u)[0]-lin", ("velem", ("matvec", [[S("k0"), 2.0, 0.0], [1.0, S("k1"), -1.0]], v), 1))
    add("sum(Mv)", ("vsum", ("matvec", [[S("k0"), 2.0, 0.0], [1.0, S("k1"), -1.0]], v)))
    add("v[0]+2*v[2]", ("bin", "+", ("velem", v, 0), ("bin", "*", ("num", 2.0), ("velem", v, 2))))
    return F


def build_model(model, val):
    """-> (Problem, Build)"""
    from optyx import Problem
    b = Build(val, bounds={k: tuple(cval(x, val) if x is not None else None for x in v) for k, v in model.get("bounds", {}).items()},
              domains=model.get("domains", {}))
    rs = [model["obj"]] + [c[1] for c in model["cons"]] + [c[2] for c in model["cons"]]
    for r in rs:
        for d in declare(r):
            (b.V if d[0] == "vec" else b.M)(d)
    p = Problem()
    obj = b.S(model["obj"])
    (p.minimize if model["sense"] == "min" else p.maximize)(obj)
    for kind, lhs, rhs in model["cons"]:
        p.subject_to(make_constraint(b, kind, lhs, rhs))
    return p, b


def make_constraint(b, kind, lhs, rhs):
    L = b.S(lhs)
    Rr = b.S(rhs)
    if kind == "le":
        return L <= Rr
    if kind == "ge":
        return L >= Rr
    if kind == "eq":
        return L.eq(Rr)
    if kind == "rle":   # number on the left:  rhs <= lhs
        return Rr <= L
    if kind == "rge":   # rhs >= lhs
        return Rr >= L
    raise ValueError(kind)


def con_ref(ref, kind, lhs, rhs):
    """(sense, value) of the user's relation in normal form  `value sense 0`
    where value = smaller side - larger side for inequalities"""
    l = ref.S(lhs)
    r = ref.S(rhs)
    if kind == "le":      # lhs <= rhs
        return "<=", l - r
    if kind == "ge":      # lhs >= rhs  <=>  rhs - lhs <= 0
        return "<=", r - l
    if kind == "rle":     # rhs <= lhs
        return "<=", r - l
    if kind == "rge":     # rhs >= lhs
        return "<=", l - r
    if kind == "eq":
        return "==", l - r
    raise ValueError(kind)


def model_names(model):
    acc = None
    for r in [model["obj"]] + [c[1] for c in model["cons"]] + [c[2] for c in model["cons"]]:
        acc = free_names(r, acc)
    for k, (lb, ub) in model.get("bounds", {}).items():
        for x in (lb, ub):
            if isinstance(x, tuple) and x[0] == "sym" and x[1] not in acc["syms"]:
                acc["syms"].append(x[1])
    return acc


def declared_bounds(model, name, val):
    """declared (lb, ub) of variable `name` under the model's bounds spec"""
    bd = model.get("bounds", {})
    dom = model.get("domains", {})
    base = name.split("[")[0]
    key = name if name in bd else base if base in bd else None
    d = dom.get(name, dom.get(base))
    if d == "binary":
        return 0.0, 1.0
    if key is None:
        return None, None
    lb, ub = bd[key]
    return (cval(lb, val) if lb is not None else None, cval(ub, val) if ub is not None else None)


def lp_models(tier="quick"):
    forms = linear_forms()
    out = []
    simple_obj = ("bin", "+", X, ("bin", "*", ("num", 2.0), Z))
    vobj = ("vsum", V3)
    std_bounds = {"x": (S("lx"), S("ux")), "z": (0.0, None), "v": (S("lv"), None), "a": (None, S("ua")), "A": (0.0, 1.0), "S": (None, None), "w": (S("lw"), S("uw"))}
    for tag, f in forms:
        for sense in ("min", "max"):
            out.append(dict(tag=f"obj:{tag}:{sense}", obj=f, sense=sense,
                            cons=[("le", ("bin", "+", X, Z), ("num", S("r0"))), ("ge", X, ("num", 0.0))], bounds=std_bounds))
        kinds = ("le", "ge", "eq", "rle", "rge")
        for kind in kinds:
            for base_obj in ((simple_obj, "s"), (vobj, "v")):
                out.append(dict(tag=f"con:{tag}:{kind}:{base_obj[1]}", obj=base_obj[0], sense="min",
                                cons=[(kind, f, ("num", S("r1")))], bounds=std_bounds))
        # expression on both sides, three constraints of different senses
        out.append(dict(tag=f"con2:{tag}", obj=simple_obj, sense="max",
                        cons=[("le", f, Z), ("eq", ("bin", "+", f, ("num", 1.0)), ("num", S("r2"))), ("ge", f, ("bin", "*", ("num", 2.0), X))],
                        bounds=std_bounds))
    if tier == "thorough":
        for (t1, f1) in forms:
            for (t2, f2) in forms[::3]:
                out.append(dict(tag=f"pair:{t1}|{t2}", obj=f1, sense="min", cons=[("le", f2, ("num", S("r1"))), ("ge", f1, f2)], bounds=std_bounds))
    return out
