"""C01 - compiled callable = tree evaluation = the formula the user wrote.

For every recipe e of the bounded family and every ordering / superset V of
its variables, the real compile_expression / compile_to_dict_function /
CompiledExpression.value / a second (cached) compile / the deep-tree builder
(forced by lowering _RECURSION_THRESHOLD) are executed on a symbolic x, and
e.evaluate on {V_i: x_i}; z3 proves each equal to the reference formula for all
x and all symbolic constants / parameter values.  Totality: every concrete
Expression subclass found by introspection must be built by some recipe and
compile without raising."""
from __future__ import annotations

import random

import numpy as np

from vf.engine.recipes import Ref, free_names, kind_of, show
from vf.props import common as K
from vf.props.common import harness_error, inconclusive, proved, violation

ID = "C01"
LEVEL = "model_checking"
ITEM_BUDGET_S = {"quick": 240, "thorough": 900}
QT = {"quick": 15000, "thorough": 30000}
_TIER = "quick"
OBS = ["evaluate", "compile", "compile_again", "dict_fn", "CompiledExpression.value", "compile_iterative"]
OBS_P = ["evaluate@p'", "compile@p'", "dict_fn@p'", "CompiledExpression.value@p'", "compile_iterative@p'", "compile_fresh@p'"]

META = dict(
    rule="one case = (recipe, variable order V, observation, path); non-trivial = recipe with at least one decided query",
    bounds={
        "quick": "scalar recipes depth<=2 (see common.scalar_family), n=3 vectors, 2x2 matrices; V = every permutation of the mentioned variables when <=3 else 3 rotations, plus supersets with an unused variable front/middle/back; observations: evaluate, compile_expression (twice: cached), compile_to_dict_function, CompiledExpression.value, _build_evaluator_iterative (threshold forced to 0)",
        "thorough": "adds depth-3 compositions, vector sizes 1,2,4,5, two unused variables, VERIF_SEED random recipes",
    },
    outside=["rounding/overflow (S7)", "array-valued Constant/Parameter", "recipes beyond the bound"],
    assumptions=["S1 float shim", "S2 numpy allocation", "S6 uninterpreted elementary functions", "S7 exact reals"],
    exhaustive_within_bounds=True,
)


def worker_init(tier, seed):
    global _TIER
    _TIER = tier


def items(tier, seed):
    rs = K.scalar_family(tier)
    if tier == "thorough":
        rs += K.random_recipes(seed, 400, 3)
    its = [("conf", seed), ("twin", 0), ("totality", 0)] + [("rs", ch) for ch in K.chunks(rs, 4)]
    return its + K.touched_items(its, 3, ("rs",))


def observe(recipe, order, val):
    """run the real code; returns {obs: value | Exception}"""
    from optyx import Variable
    from optyx.core import compiler as C
    b, e = K.build_recipe(recipe, val)
    decl = set(free_names(recipe)["vars"])
    V = [b.S(("var", n)) if n in decl else Variable(n) for n in order]
    x = np.empty(len(order), dtype=object)
    for i, n in enumerate(order):
        x[i] = val[n]
    if not any(hasattr(t, "t") for t in x):
        x = np.array([float(t) for t in x])
    point = {n: val[n] for n in order}
    out = {}

    def rec(name, fn):
        try:
            out[name] = fn()
        except Exception as ex:  # noqa: BLE001
            out[name] = ex

    rec("evaluate", lambda: e.evaluate(point))
    rec("compile", lambda: C.compile_expression(e, V)(x))
    rec("compile_again", lambda: C.compile_expression(e, V)(x))
    rec("dict_fn", lambda: C.compile_to_dict_function(e, V)(dict(point)))
    rec("CompiledExpression.value", lambda: C.CompiledExpression(e, V).value(x))

    def deep():
        old = C._RECURSION_THRESHOLD
        C._RECURSION_THRESHOLD = 0
        try:
            C._compile_cached.cache_clear()
            return C.compile_expression(e, V)(x)
        finally:
            C._RECURSION_THRESHOLD = old
            C._compile_cached.cache_clear()
    rec("compile_iterative", deep)
    if b.params and all(n + "'" in val for n in b.params):
        # "parameters contribute their value at call time": every callable is BUILT with the old
        # parameter values, the parameters are then updated, and only then is it called
        fns = {}

        def mk(name, f):
            try:
                fns[name] = f()
            except Exception as ex:  # noqa: BLE001
                fns[name] = ex

        def deep_fn():
            old = C._RECURSION_THRESHOLD
            C._RECURSION_THRESHOLD = 0
            try:
                C._compile_cached.cache_clear()
                return C.compile_expression(e, V)
            finally:
                C._RECURSION_THRESHOLD = old
                C._compile_cached.cache_clear()
        mk("compile", lambda: C.compile_expression(e, V))
        mk("dict_fn", lambda: C.compile_to_dict_function(e, V))
        mk("CompiledExpression.value", lambda: C.CompiledExpression(e, V).value)
        mk("compile_iterative", deep_fn)
        for n, p_ in b.params.items():
            p_.set(val[n + "'"])
        rec("evaluate@p'", lambda: e.evaluate(point))
        for name, arg in (("compile", x), ("dict_fn", dict(point)), ("CompiledExpression.value", x), ("compile_iterative", x)):
            f = fns[name]
            if isinstance(f, Exception):
                out[name + "@p'"] = f
            else:
                rec(name + "@p'", lambda f=f, arg=arg: f(arg))
        rec("compile_fresh@p'", lambda: C.compile_expression(e, V)(x))
    return out


def _scalar(v):
    if isinstance(v, np.ndarray):
        if v.size == 1:
            return v.reshape(-1)[0]
        raise ValueError(f"non-scalar result of shape {v.shape}")
    return v


def check_recipe(recipe, planted=False):
    from vf.engine import smt
    from vf.engine.sym import SymbolicConcretisation
    res = []
    names = free_names(recipe)
    used = names["vars"]
    orders = K.variable_orders(used, tier=_TIER)
    extra = ["u0", "u1"]
    allv = used + extra + names["syms"] + names["params"] + [n + "'" for n in names["params"]]
    val = K.sym_val(allv)
    ref = Ref(val, diff=0)
    oracle = ref.S(recipe)
    dom = ref.dom
    if planted:
        oracle = oracle + 1.0
    oracle1, dom1 = oracle, dom
    if names["params"]:
        ref2 = Ref({**val, **{n: val[n + "'"] for n in names["params"]}}, diff=0)
        oracle2 = ref2.S(recipe)
        dom2 = dom1 + ref2.dom
    for order in orders:
        for dec, labels, pc, out in K.explore(lambda: observe(recipe, order, val), max_paths=200):
            for name in OBS + (OBS_P if names["params"] else []):
                oracle, dom = (oracle2, dom2) if name.endswith("@p'") else (oracle1, dom1)
                if name not in out:
                    res.append(harness_error(f"observation {name} missing", item=show(recipe)))
                    continue
                got = out[name]
                what = f"{name} {show(recipe)[:90]} V={order}"
                payload = dict(kind="value", obs=name, recipe=K.enc(recipe), order=order)
                if isinstance(got, SymbolicConcretisation):
                    res.append(K.vacuous_or_error(got, pc, dom, what, show(recipe)))
                    continue
                if isinstance(got, Exception):
                    sig = f"C01|{name}|raises:{type(got).__name__}|{K.shape(recipe, 3)}"
                    res.append(violation(sig, f"{what} raises {type(got).__name__}: {str(got)[:100]}", dict(payload, kind="raises")))
                    continue
                try:
                    g = _scalar(got)
                except ValueError as ex:
                    res.append(violation(f"C01|{name}|nonscalar|{K.shape(recipe, 3)}", f"{what}: {ex}", dict(payload, kind="raises")))
                    continue
                sig = f"C01|{name}|wrong-value|{K.shape(recipe, 3)}"
                res.append(K.decide(smt.eq(g, oracle), pc, dom, what, sig, payload, allv, QT[_TIER]))
    return res


def check(item):
    kind, payload = item
    if kind == "touched":
        return K.run_touched(check, payload)
    if kind == "rs":
        return K.safe_items(check_recipe, payload, show)
    if kind == "twin":
        out = []
        for r in [("bin", "*", K.X, K.Y), ("vsum", ("vpow", K.V3, 2)), ("quad", K.V3, [[1.0, 2.0, 0.0], [0.0, 1.0, 0.0], [0.0, 0.0, 3.0]])]:
            rr = check_recipe(r, planted=True)
            if sum(x["status"] == "violation" for x in rr) < len(OBS):
                out.append(harness_error(f"reachability twin not refuted for {r}"))
            else:
                out.append(dict(status="conformance", what=f"twin refuted {r}", points=1))
        return out
    if kind == "totality":
        return totality()
    if kind == "conf":
        return conformance(payload)
    raise ValueError(kind)


def totality():
    """every concrete Expression subclass of optyx.core.* is produced by some
    recipe of the family (so 'can be compiled' was actually exercised on it)"""
    import inspect
    import optyx.core.expressions as E
    import optyx.core.matrices as M
    import optyx.core.parameters as Pm
    import optyx.core.vectors as Vc
    classes = set()
    for mod in (E, Vc, M, Pm):
        for n, c in vars(mod).items():
            if inspect.isclass(c) and issubclass(c, E.Expression) and not inspect.isabstract(c) and c.__module__ == mod.__name__:
                classes.add(c)
    seen = set()

    def walk(o, depth=0):
        if depth > 12 or id(o) in seenids:
            return
        seenids.add(id(o))
        if isinstance(o, E.Expression):
            seen.add(type(o))
        for attr in ("left", "right", "operand", "vector", "matrix", "expression", "_expressions", "_variables"):
            if hasattr(o, attr):
                c = getattr(o, attr)
                if isinstance(c, (list, tuple)):
                    for e in c:
                        if isinstance(e, (list, tuple)):
                            for ee in e:
                                walk(ee, depth + 1)
                        else:
                            walk(e, depth + 1)
                else:
                    walk(c, depth + 1)

    fam = K.scalar_family("quick")
    for r in fam:
        seenids = set()
        names = free_names(r)
        val = {n: 0.5 for n in names["vars"] + names["syms"] + names["params"]}
        try:
            b, e = K.build_recipe(r, val)
        except Exception:  # noqa: BLE001
            continue
        walk(e)
    # ElementwisePower / ElementwiseUnary are vector-valued Expression nodes: compiled on their own here
    out = []
    missing = sorted(c.__name__ for c in classes - seen)
    vector_valued = {"ElementwisePower", "ElementwiseUnary"}
    truly_missing = [m for m in missing if m not in vector_valued]
    if truly_missing:
        out.append(harness_error(f"Expression subclasses never built by any recipe: {truly_missing}"))
    out.append(dict(status="conformance", what=f"totality: {len(classes)} Expression subclasses, {len(seen & classes)} reached by recipes", points=len(seen & classes)))
    return out


def conformance(seed):
    from vf.engine.evalterm import eval_term
    from vf.engine.sym import term
    from vf.engine import npshim
    rng = random.Random(4321 + seed)
    picks = rng.sample(K.scalar_family("quick"), 40)
    out = []
    pts = 0
    for r in picks:
        names = free_names(r)
        used = names["vars"]
        allv = used + names["syms"] + names["params"]
        val = K.sym_val(allv)
        order = list(used)
        rng.shuffle(order)
        try:
            paths = list(K.explore(lambda: observe(r, order, val), max_paths=50))
        except BaseException:  # noqa: BLE001
            continue
        point = {n: round(rng.uniform(0.2, 0.9), 3) for n in allv}
        npshim.uninstall()
        try:
            npshim.clear_optyx_caches()
            with np.errstate(all="ignore"):
                conc = observe(r, order, dict(point))
        finally:
            npshim.install()
            npshim.clear_optyx_caches()
        for dec, labels, pc, outp in paths:
            try:
                if not all(eval_term(c, point) for c in pc):
                    continue
            except Exception:  # noqa: BLE001
                continue
            for name in OBS:
                a, c = outp[name], conc[name]
                if isinstance(a, Exception) or isinstance(c, Exception):
                    if isinstance(a, Exception) != isinstance(c, Exception):
                        out.append(harness_error(f"conformance: exception mismatch {name} {r}: {a!r} vs {c!r}"))
                    continue
                try:
                    sv = eval_term(term(_scalar(a)), point)
                    cv = float(np.asarray(c).item())
                except Exception as e:  # noqa: BLE001
                    out.append(harness_error(f"conformance: cannot compare {name} {r}: {e}"))
                    continue
                pts += 1
                if np.isfinite(cv) and np.isfinite(sv) and not K.close(sv, cv, 1e-8, 1e-9):
                    out.append(harness_error(f"conformance mismatch {name} {r}: symbolic {sv} vs concrete {cv}"))
    out.append(dict(status="conformance", what="engine conformance", points=pts))
    return out


def replay(payload):
    r_ = K.replay_touched(replay, payload)
    if r_ is not None:
        return r_
    recipe = K.dec(payload["recipe"])
    order = payload["order"]
    name = payload["obs"]
    names = free_names(recipe)
    allv = list(dict.fromkeys(names["vars"] + order + names["syms"] + names["params"] + [n + "'" for n in names["params"]]))
    if payload["kind"] == "raises":
        pt = {n: 0.7 for n in allv}
        out = observe(recipe, order, pt)
        if isinstance(out[name], Exception):
            return True, f"{name} raises {type(out[name]).__name__}: {out[name]}"
        try:
            _scalar(out[name])
        except ValueError as e:
            return True, f"{name}: {e}"
        return False, "no exception on replay"
    for pt in K.candidate_points(allv, payload.get("values", {}), 11):
        try:
            with np.errstate(all="ignore"):
                out = observe(recipe, order, pt)
                rpt = {**pt, **{n: pt[n + "'"] for n in names["params"]}} if name.endswith("@p'") else pt
                ref, ok = K.concrete_ref(recipe, rpt, diff=0)
                if ok and name.endswith("@p'"):
                    ok = K.concrete_ref(recipe, pt, diff=0)[1]
            if not ok or isinstance(out[name], Exception):
                continue
            g = float(np.asarray(out[name]).item())
            ref = float(ref)
            if not (np.isfinite(g) and np.isfinite(ref)):
                continue
            if not K.close(g, ref, 1e-6, 1e-8):
                return True, f"at {pt}: {name}={g!r} reference={ref!r}"
        except Exception:  # noqa: BLE001
            continue
    return False, "no numeric difference reproduced"
