"""C11 - vector and matrix modelling operations denote their NumPy counterparts.

The reference interpreter IS NumPy: each recipe is executed with the same
NumPy operation (slicing, .T, +,-,*,/,** with broadcasting, np.sum, np.dot, @,
np.linalg.norm, x @ Q @ x, np.trace, np.diag) on object arrays holding the same
symbolic values, and z3 proves  build(r).evaluate(values) == numpy(r)(values)
for all values (denominators != 0).  Shape-mismatched operand pairs are
enumerated exhaustively (sizes 1..4 x 1..4) and must be rejected."""
from __future__ import annotations

import itertools

import numpy as np
import z3

from vf.engine.recipes import Build, carr, carr2, cval, declare, free_names, kind_of
from vf.props import common as K
from vf.props.common import harness_error, inconclusive, proved, violation

ID = "C11"
LEVEL = "model_checking"
ITEM_BUDGET_S = {"quick": 300, "thorough": 1200}
QT = {"quick": 15000, "thorough": 30000}
_TIER = "quick"

META = dict(
    rule="one case = (construction recipe, path); all elements of the result are one conjunction; mismatch cases are enumerated and carry no symbolic content (reported separately)",
    bounds={
        "quick": "vector sizes 1..4, matrices up to 3x3 (2x3 for non-square), view composition depth <= 2, every elementwise operator with scalar / array / list / vector / matrix on either side, all reductions; mismatch pairs n,m in 1..4",
        "thorough": "sizes 1..6, 4x3 matrices, view depth 3",
    },
    outside=["rounding (S7)", "sizes beyond the bound", "NumPy integer-array semantics (values are reals)"],
    assumptions=["S1", "S2", "S6", "S7", "reference = NumPy on object arrays (np.sum/dot/@/linalg.norm/trace/diag dispatch to the symbolic number's operators)"],
    exhaustive_within_bounds=True,
)


def worker_init(tier, seed):
    global _TIER
    _TIER = tier


def S(n):
    return ("sym", n)


SLICES = [(None, None, None), (0, 2, None), (1, None, None), (None, None, -1), (None, None, 2), (-2, None, None), (1, -1, None), (None, None, -2), (2, 0, -1)]


def vec_views(v, n, depth):
    out = [v]
    for (a, b, s) in SLICES:
        if len(range(n)[slice(a, b, s)]) == 0:
            continue
        sl = ("slice", v, a, b, s)
        out.append(sl)
        if depth >= 2:
            m = len(range(n)[slice(a, b, s)])
            for (a2, b2, s2) in SLICES[1:5]:
                if len(range(m)[slice(a2, b2, s2)]) > 0:
                    out.append(("slice", sl, a2, b2, s2))
    return out


def vsize(vr):
    if vr[0] == "vec":
        return vr[2]
    if vr[0] == "slice":
        return len(range(vsize(vr[1]))[slice(vr[2], vr[3], vr[4])])
    raise ValueError(vr)


def programs(tier):
    sizes = (1, 2, 3, 4) if tier == "quick" else (1, 2, 3, 4, 5, 6)
    depth = 2 if tier == "quick" else 2
    out = []
    for n in sizes:
        v, w = ("vec", "v", n), ("vec", "w", n)
        views = vec_views(v, n, depth)
        for vw in views:
            m = vsize(vw)
            out.append(vw)
            out.append(("vsum", vw))
            out.append(("norm", vw, 2))
            out.append(("norm", vw, 1))
            out.append(("velem", vw, -1))
            out.append(("dot", vw, vw))
            out.append(("lincomb", [S(f"k{i}") for i in range(m)], vw))
        if n > 4:
            continue
        arr = ("arr", [S(f"a{i}") for i in range(n)])
        lst = ("lst", [S(f"a{i}") for i in range(n)])
        for op in ("+", "-", "*", "/", "**"):
            for W in (w, ("sc", S("c")), ("sc", 2), arr, lst, ("vbin", "*", w, ("sc", 2.0)), ("slice", ("vec", "u", n + 1), 0, n, None)):
                if op == "**" and W[0] not in ("sc",):
                    continue
                out.append(("vbin", op, v, W))
                out.append(("vbin", op, ("vbin", "+", v, w), W))
            for W in (("sc", S("c")), ("sc", 2), arr):
                if op == "**":
                    continue
                out.append(("vrbin", op, W, v))
                out.append(("vrbin", op, W, ("vbin", "-", v, w)))
        # Python lists / object arrays whose elements are scalar EXPRESSIONS: the elements of another vector, Parameters
        # (what list(VectorParameter) gives), and a mixture with plain numbers
        el_vars = [("velem", w, i) for i in range(n)]
        el_par = [("param", f"p{i}") for i in range(n)]
        el_mix = [(("velem", w, i), ("param", f"p{i}"), S(f"a{i}"), 2.0)[i % 4] for i in range(n)]
        for els in (el_vars, el_par, el_mix):
            for how in ("list", "array"):
                E = ("elst", els, how)
                for op in ("+", "-", "*", "/"):
                    out.append(("vbin", op, v, E))
                    out.append(("vrbin", op, E, v))
                out.append(("vsum", ("vbin", "*", ("vbin", "+", v, w), E)))
        # vector power / elementwise-function nodes used as OPERANDS (they are their own node classes, not VectorExpression):
        # nested powers, arithmetic with vectors / scalars / arrays on either side, reductions
        for P in (("vpow", v, 2), ("vpow", v, 3), ("vun", "sin", v), ("vpow", ("slice", v, None, None, -1), 2)):
            for ex in (0.5, 1.5, 2, 3, S("c")):
                if P[0] == "vpow":
                    out += [("vpow", P, ex), ("vsum", ("vpow", P, ex))]
            for op in ("+", "-", "*", "/"):
                out += [("vbin", op, P, w), ("vbin", op, w, P), ("vbin", op, P, ("sc", S("c"))), ("vrbin", op, ("sc", 2.0), P), ("vbin", op, P, arr), ("vrbin", op, arr, P),
                        ("vbin", op, P, ("vpow", w, 2))]
            # (dot / norm / c @ P / f(P) with such a node raise AttributeError / TypeError: an explicit rejection of an operand
            #  kind the API does not offer there, not a silent wrong value - not part of the family)
            out += [("vneg", P), ("vsum", ("vbin", "*", P, v)), ("velem", P, 0), ("velem", ("vbin", "*", P, w), -1)]
        out += [("vneg", v), ("vneg", ("vbin", "+", v, w)), ("vpow", v, 2), ("vpow", v, 3), ("vpow", v, 0.5), ("vpow", v, S("c"))]
        for op in K.R.VEC_UNARY:
            out.append(("vun", op, v))
        out.append(("vun", "sin", ("vbin", "*", v, ("sc", 2.0))))
        out += [("dot", v, w), ("dot", v, w, "matmul"), ("dot", ("vbin", "+", v, w), w), ("dot", ("vbin", "+", v, w), ("vbin", "-", v, w), "matmul"),
                ("lincomb", [S(f"k{i}") for i in range(n)], v, "right"), ("lincomb", [S(f"k{i}") for i in range(n)], v, "list"),
                ("lincomb", [S(f"k{i}") for i in range(n)], ("vbin", "+", v, w)), ("lincomb", [S(f"k{i}") for i in range(n)], ("vbin", "+", v, w), "right"),
                ("vsum", ("vbin", "*", v, w)), ("vsum", ("vpow", v, 2)), ("vsum", ("vun", "exp", v)),
                ("norm", ("vbin", "-", v, w), 2), ("norm", ("vbin", "-", v, w), 1)]
        Q = [[S(f"q{i}{j}") for j in range(n)] for i in range(n)]
        out += [("quad", v, Q), ("quad", v, Q, "dot"), ("quad", ("vbin", "+", v, w), Q)]
        for r in (1, 2, 3):
            Am = [[S(f"m{i}{j}") for j in range(n)] for i in range(r)]
            out += [("matvec", Am, v), ("matvec", Am, v, "func"), ("matvec", Am, ("vbin", "+", v, w), "func"), ("vsum", ("matvec", Am, v)), ("velem", ("matvec", Am, v), r - 1)]
            # a constant vector applied to a matrix-vector product, on either side and as a list
            cr = [S(f"c{i}") for i in range(r)]
            out += [("lincomb", cr, ("matvec", Am, v)), ("lincomb", cr, ("matvec", Am, v), "right"), ("lincomb", cr, ("matvec", Am, v), "list"),
                    ("lincomb", cr, ("matvec", Am, ("vbin", "+", v, w), "func"), "right")]
            if r == n:
                out.append(("dot", w, ("matvec", Am, v)))
                out.append(("dot", v, ("matvec", Am, v)))
                if n >= 2:
                    # the quadratic-form pattern x.dot(Q @ y) with y another view of the same vector (names collide)
                    out += [("dot", ("slice", v, 0, n, None), ("matvec", Am, ("slice", v, None, None, -1))),
                            ("dot", ("slice", v, None, None, -1), ("matvec", Am, v)),
                            ("dot", ("slice", v, 0, n, None), ("matvec", Am, ("slice", v, 0, n, None)))]
    shapes = [(1, 1), (2, 2), (2, 3), (3, 3), (3, 1)] if tier == "quick" else [(1, 1), (2, 2), (2, 3), (3, 3), (3, 1), (4, 3)]
    for (r, c) in shapes:
        A, B = ("mat", "A", r, c), ("mat", "B", r, c)
        views = [A, ("mT", A), ("mT", ("mT", A))]
        for rs in ((None, None, None), (0, 1, None), (None, None, -1), (1, None, None)):
            for cs in ((None, None, None), (0, 2, None), (None, None, -1)):
                if len(range(r)[slice(*rs)]) and len(range(c)[slice(*cs)]):
                    views.append(("mslice", A, rs, cs))
                    views.append(("mT", ("mslice", A, rs, cs)))
        for mv in views:
            out.append(mv)
            out.append(("msum", mv))
        for i in range(-1, r):
            out.append(("mrow", A, i))
            out.append(("mcol", ("mT", A), i))
        for j in range(-1, c):
            out.append(("mcol", A, j))
        out += [("melem", A, -1, -1), ("melem", ("mT", A), c - 1, 0), ("fro", A), ("fro", ("mT", A)), ("mrow", ("mslice", A, (None, None, -1), (None, None, None)), 0),
                ("slice", ("mrow", A, 0), None, None, -1), ("vsum", ("mcol", A, 0))]
        a2 = ("arr2", [[S(f"a{i}{j}") for j in range(c)] for i in range(r)])
        l2 = ("lst2", [[S(f"a{i}{j}") for j in range(c)] for i in range(r)])
        if (r, c) in ((2, 2), (2, 3)):
            # nested lists / 2-D object arrays whose elements are scalar EXPRESSIONS (elements of B, Parameters, numbers)
            for op in ("+", "-", "*", "/"):
                for how in ("list", "array"):
                    out.append(("mbin", op, A, ("elst2", [[("melem", B, i, j) if (i + j) % 2 == 0 else ("param", f"p{i}{j}") for j in range(c)] for i in range(r)], how)))
                    out.append(("msum", ("mbin", op, ("mbin", "+", A, ("sc", 1.0)), ("elst2", [[("melem", B, i, j) if j else 2.0 for j in range(c)] for i in range(r)], how))))
        for op in ("+", "-", "*", "/"):
            # nested Python lists on either side of a matrix operator
            for W in (l2,):
                out += [("mbin", op, A, W), ("mrbin", op, W, A), ("mrbin", op, W, ("mbin", "*", A, ("sc", 2.0))), ("msum", ("mrbin", op, W, A))]
        for op in ("+", "-", "*", "/", "**"):
            for W in (B, ("sc", S("c")), ("sc", 2), a2, ("mbin", "+", B, ("sc", 1.0)), ("mT", ("mat", "Ct", c, r))):
                if op == "**" and W[0] != "sc":
                    continue
                out.append(("mbin", op, A, W))
                out.append(("mbin", op, ("mbin", "*", A, ("sc", 2.0)), W))
            for W in (("sc", S("c")), a2):
                if op == "**":
                    continue
                out.append(("mrbin", op, W, A))
                out.append(("mrbin", op, W, ("mbin", "+", A, B)))
        out += [("mneg", A), ("mneg", ("mbin", "+", A, B)), ("mT", ("mbin", "+", A, B)), ("msum", ("mbin", "*", A, B)),
                ("melem", ("mbin", "-", A, a2), r - 1, c - 1), ("melem", ("mT", ("mbin", "-", A, a2)), c - 1, r - 1)]
        v = ("vec", "v", c)
        out += [("Mmatvec", A, v), ("Mmatvec", A, ("vbin", "+", v, ("sc", 1.0))), ("Mmatvec", ("mT", ("mat", "Ct", c, r)), v), ("vsum", ("Mmatvec", A, v))]
        if r == c:
            Sm = ("mat", "S", r, r, True)
            out += [("trace", A), ("trace", A, "func"), ("mdiag", A), ("mdiag", A, "func"), ("mdiag", ("mT", A)), ("trace", ("mT", A)),
                    Sm, ("mT", Sm), ("mrow", Sm, r - 1), ("mcol", Sm, 0), ("mdiag", Sm), ("msum", Sm), ("fro", Sm), ("trace", Sm),
                    ("mbin", "-", Sm, ("mT", Sm)), ("Mmatvec", Sm, ("vec", "v", r)), ("mslice", Sm, (None, None, -1), (None, None, None))]
            # every sub-matrix view of the symmetric matrix, its transpose, sums, products
            for rs in ((None, None, None), (0, 2, None), (None, None, -1), (1, None, None), (None, None, 2)):
                for cs in ((None, None, None), (0, 2, None), (None, None, -1), (1, None, None), (None, None, -2)):
                    nr, nc = len(range(r)[slice(*rs)]), len(range(r)[slice(*cs)])
                    if nr and nc:
                        vw = ("mslice", Sm, rs, cs)
                        out += [vw, ("mT", vw), ("msum", vw), ("fro", ("mT", vw)), ("mbin", "+", ("mT", vw), ("sc", 1.0)),
                                ("Mmatvec", ("mT", vw), ("vec", "v", nr)), ("mrow", ("mT", vw), 0), ("mT", ("mT", vw))]
                        if nr == nc:
                            out += [("trace", vw), ("mdiag", ("mT", vw)), ("mbin", "-", vw, ("mT", vw))]
    seen, uniq = set(), []
    for r_ in out:
        k = repr(r_)
        if k not in seen:
            seen.add(k)
            uniq.append(r_)
    return uniq


def mismatch_programs():
    out = []
    for n, m in itertools.product(range(1, 5), range(1, 5)):
        if n == m:
            continue
        v, w = ("vec", "v", n), ("vec", "w", m)
        for op in ("+", "-", "*", "/"):
            out.append(("vbin", op, v, w))
            out.append(("vbin", op, v, ("arr", [1.0] * m)))
            out.append(("vbin", op, v, ("lst", [1.0] * m)))
            out.append(("vbin", op, ("vbin", "+", v, ("sc", 1.0)), w))
            out.append(("vrbin", op, ("arr", [1.0] * m), v))
        out += [("dot", v, w), ("dot", v, w, "matmul"), ("dot", ("vbin", "*", v, ("sc", 2.0)), w), ("lincomb", [1.0] * m, v), ("lincomb", [1.0] * m, v, "right"),
                ("lincomb", [1.0] * m, ("vbin", "+", v, ("sc", 1.0))),
                ("matvec", [[1.0] * m] * 2, v), ("quad", v, [[1.0] * m] * m), ("quad", v, [[1.0] * n] * m),
                ("Mmatvec", ("mat", "A", 2, m), v), ("dot", v, ("slice", ("vec", "u", 5), 0, m, None))]
    for (r, c), (r2, c2) in itertools.product([(1, 2), (2, 2), (2, 3), (3, 2)], repeat=2):
        if (r, c) == (r2, c2):
            continue
        A, B = ("mat", "A", r, c), ("mat", "B", r2, c2)
        for op in ("+", "-", "*", "/"):
            out.append(("mbin", op, A, B))
            out.append(("mbin", op, A, ("arr2", [[1.0] * c2] * r2)))
            out.append(("mrbin", op, ("arr2", [[1.0] * c2] * r2), A))
            out.append(("mbin", op, ("mbin", "+", A, ("sc", 1.0)), B))
    for (r, c) in [(1, 2), (2, 3), (3, 2)]:
        A = ("mat", "A", r, c)
        out += [("trace", A), ("mdiag", A), ("trace", A, "func"), ("mdiag", A, "func"), ("mat", "S", r, c, True)]
    return out


# --------------------------------------------------------------------------
# the NumPy reference
# --------------------------------------------------------------------------
class NpRef:
    def __init__(self, val):
        self.val = val

    def W(self, r):
        if r[0] == "sc":
            return cval(r[1], self.val)
        if r[0] in ("arr", "lst"):
            return carr(r[1], self.val)
        if r[0] in ("arr2", "lst2"):
            return carr2(r[1], self.val)
        if r[0] == "elst":
            a = np.empty(len(r[1]), dtype=object)
            for i, e in enumerate(r[1]):
                a[i] = self.go(e) if K.R._is_scalar_recipe(e) else cval(e, self.val)
            return a
        if r[0] == "elst2":
            a = np.empty((len(r[1]), len(r[1][0])), dtype=object)
            for i, row in enumerate(r[1]):
                for j, e in enumerate(row):
                    a[i, j] = self.go(e) if K.R._is_scalar_recipe(e) else cval(e, self.val)
            return a
        return self.go(r)

    def go(self, r):
        k = r[0]
        v = self.val
        if k == "vec":
            return np.array([v[f"{r[1]}[{i}]"] for i in range(r[2])], dtype=object)
        if k == "mat":
            sym = len(r) > 4 and r[4]
            return np.array([[v[f"{r[1]}[{min(i, j)},{max(i, j)}]"] if sym else v[f"{r[1]}[{i},{j}]"] for j in range(r[3])] for i in range(r[2])], dtype=object)
        if k in ("var", "param"):
            return v[r[1]]
        if k == "slice":
            return self.go(r[1])[slice(r[2], r[3], r[4])]
        if k in ("vbin", "mbin"):
            return _op(r[1], self.go(r[2]), self.W(r[3]))
        if k in ("vrbin", "mrbin"):
            return _op(r[1], self.W(r[2]), self.go(r[3]))
        if k in ("vneg", "mneg"):
            return -self.go(r[1])
        if k == "vpow":
            return self.go(r[1]) ** cval(r[2], v)
        if k == "vun":
            return getattr(np, K.R.UNARY[r[1]])(self.go(r[2]))
        if k == "matvec":
            return carr2(r[1], v) @ self.go(r[2])
        if k == "mrow":
            return self.go(r[1])[r[2], :]
        if k == "mcol":
            return self.go(r[1])[:, r[2]]
        if k == "mdiag":
            return np.diag(self.go(r[1]))
        if k == "Mmatvec":
            return self.go(r[1]) @ self.go(r[2])
        if k == "mT":
            return self.go(r[1]).T
        if k == "mslice":
            return self.go(r[1])[slice(*r[2]), slice(*r[3])]
        if k == "vsum" or k == "msum":
            return np.sum(self.go(r[1]))
        if k == "dot":
            return np.dot(self.go(r[1]), self.go(r[2]))
        if k == "lincomb":
            return np.dot(carr(r[1], v), self.go(r[2]))
        if k == "norm":
            return np.linalg.norm(self.go(r[1]), ord=r[2])
        if k == "quad":
            x = self.go(r[1])
            return x @ carr2(r[2], v) @ x
        if k == "fro":
            return np.linalg.norm(self.go(r[1]).reshape(-1))
        if k == "trace":
            return np.trace(self.go(r[1]))
        if k == "velem":
            return self.go(r[1])[r[2]]
        if k == "melem":
            return self.go(r[1])[r[2], r[3]]
        raise ValueError(r)


def _op(op, a, b):
    if op == "+":
        return a + b
    if op == "-":
        return a - b
    if op == "*":
        return a * b
    if op == "/":
        return a / b
    return a ** b


def denominators(terms):
    """every denominator occurring in the z3 terms (to state: all != 0)"""
    seen, out = set(), []
    stack = list(terms)
    while stack:
        e = stack.pop()
        if e.get_id() in seen:
            continue
        seen.add(e.get_id())
        if z3.is_app(e):
            if e.decl().kind() == z3.Z3_OP_DIV:
                out.append(e.arg(1) != 0)
            stack.extend(e.children())
    return out


def evaluate_built(recipe, val):
    """the optyx side: flat list of element values"""
    b, obj = K.build_recipe(recipe, val)
    names = free_names(recipe)
    point = {n: val[n] for n in names["vars"]}
    k = kind_of(recipe)
    if k == "S":
        return [obj.evaluate(point)], ()
    if k == "V":
        if hasattr(obj, "evaluate"):
            ev = obj.evaluate(point)
            flat = list(ev) if not isinstance(ev, np.ndarray) else list(ev.reshape(-1))
            # element access must agree with evaluate()
            return flat, (len(flat),)
        return [e.evaluate(point) for e in obj], (len(obj),)
    if hasattr(obj, "evaluate"):
        ev = np.asarray(obj.evaluate(point), dtype=object)
        return list(ev.reshape(-1)), ev.shape
    return [obj[i, j].evaluate(point) for i in range(obj.rows) for j in range(obj.cols)], (obj.rows, obj.cols)


def check_program(recipe, planted=False):
    from vf.engine import smt
    from vf.engine.sym import SymbolicConcretisation, term
    res = []
    names = free_names(recipe)
    allv = names["vars"] + names["syms"] + names["params"]
    val = K.sym_val(allv)
    shp = K.shape(recipe, 4)
    payload = dict(kind="value", recipe=K.enc(recipe))
    try:
        want = NpRef(val).go(recipe)
    except Exception as e:  # noqa: BLE001
        return [harness_error(f"reference failed: {type(e).__name__}: {e}", item=repr(recipe))]
    wshape = want.shape if isinstance(want, np.ndarray) else ()
    wflat = list(want.reshape(-1)) if isinstance(want, np.ndarray) else [want]
    if planted:
        wflat = [w + 1.0 for w in wflat]
    for dec, labels, pc, got in K.explore(lambda: _safe(recipe, val), max_paths=300):
        what = f"evaluate {repr(recipe)[:110]}"
        if isinstance(got, SymbolicConcretisation):
            res.append(harness_error(f"concretisation: {got}", item=repr(recipe)))
            continue
        if isinstance(got, Exception) and type(got).__name__ == "InvalidOperationError" and "lst2" in repr(recipe):
            # a nested Python list is not one of the operand kinds the property lists (scalars and arrays):
            # an explicit rejection is not a silent wrong value
            res.append(dict(status="conformance", what=f"operand kind rejected explicitly (nested list): {repr(recipe)[:80]}", points=0))
            continue
        if isinstance(got, Exception):
            res.append(violation(f"C11|raises:{type(got).__name__}|{shp}", f"{what} raises {type(got).__name__}: {str(got)[:100]}", dict(payload, kind="raises")))
            continue
        flat, gshape = got
        if any(_is_tree(e) for e in flat):
            res.append(violation(f"C11|not-a-number|{shp}", f"{what}: evaluate() returns expression objects instead of numbers ({[type(e).__name__ for e in flat][:3]})", dict(payload, kind="tree")))
            continue
        bad = [e for e in flat if isinstance(e, np.ndarray) and e.ndim > 0]
        if bad or tuple(gshape) != tuple(wshape) or len(flat) != len(wflat):
            res.append(violation(f"C11|shape|{shp}", f"{what}: result shape {gshape}{' with array-valued elements' if bad else ''}, NumPy gives {wshape}", dict(payload, kind="shape")))
            continue
        claims = [smt.eq(a, b) for a, b in zip(flat, wflat)]
        dom = denominators([term(b) for b in wflat])
        res.append(K.decide(claims, pc, dom, what, f"C11|value|{shp}", payload, allv, QT[_TIER]))
    return res


def _is_tree(e):
    from optyx.core.expressions import Expression
    if isinstance(e, np.ndarray) and e.dtype == object and e.ndim == 0:
        e = e.item()
    return isinstance(e, Expression)


def _safe(recipe, val):
    try:
        return evaluate_built(recipe, val)
    except Exception as e:  # noqa: BLE001
        return e


def check_mismatch(recipe):
    names = free_names(recipe)
    val = {n: 0.5 for n in names["vars"] + names["syms"] + names["params"]}
    try:
        b, obj = K.build_recipe(recipe, val)
    except Exception as e:  # noqa: BLE001
        return [proved(f"mismatch rejected ({type(e).__name__}): {K.shape(recipe, 3)}")]
    return [violation(f"C11|mismatch-accepted|{K.shape(recipe, 3)}", f"shape-mismatched operands accepted: {recipe!r}", dict(kind="mismatch", recipe=K.enc(recipe)))]


def items(tier, seed):
    ps = programs(tier)
    return [("twin", 0)] + [("mis", ch) for ch in K.chunks(mismatch_programs(), 60)] + [("ps", ch) for ch in K.chunks(ps, 12)]


def check(item):
    kind, payload = item
    if kind == "ps":
        return K.safe_items(check_program, payload)
    if kind == "mis":
        return K.safe_items(check_mismatch, payload)
    if kind == "twin":
        out = []
        for r in [("vbin", "*", ("vec", "v", 3), ("sc", S("c"))), ("mT", ("mat", "A", 2, 3)), ("quad", ("vec", "v", 2), [[1.0, S("q")], [0.0, 2.0]])]:
            rr = check_program(r, planted=True)
            out.append(dict(status="conformance", what="twin refuted", points=1) if any(x["status"] == "violation" for x in rr) else harness_error(f"twin not refuted {r}"))
        return out
    raise ValueError(kind)


def replay(payload):
    recipe = K.dec(payload["recipe"])
    names = free_names(recipe)
    allv = names["vars"] + names["syms"] + names["params"]
    if payload["kind"] == "mismatch":
        r = check_mismatch(recipe)
        return r[0]["status"] == "violation", r[0]["what"]
    for pt in K.candidate_points(allv, payload.get("values", {}), 4):
        try:
            with np.errstate(all="ignore"):
                want = NpRef(pt).go(recipe)
                got = _safe(recipe, pt)
            if isinstance(got, Exception):
                if payload["kind"] == "raises":
                    return True, f"raises {type(got).__name__}: {got}"
                continue
            flat, gshape = got
            if any(_is_tree(e) for e in flat):
                return True, f"evaluate() returns expression objects instead of numbers: {[repr(e)[:60] for e in flat][:2]}"
            wshape = want.shape if isinstance(want, np.ndarray) else ()
            wflat = list(np.asarray(want, dtype=float).reshape(-1))
            if any(isinstance(e, np.ndarray) and e.ndim > 0 for e in flat) or tuple(gshape) != tuple(wshape):
                return True, f"result shape {gshape} (elements {[np.shape(e) for e in flat][:3]}), NumPy gives {wshape}"
            for i, (a, b) in enumerate(zip(flat, wflat)):
                a = float(np.asarray(a).item())
                if np.isfinite(a) and np.isfinite(b) and not K.close(a, b, 1e-7, 1e-9):
                    return True, f"at {pt}: element {i} = {a!r}, NumPy gives {b!r}"
        except Exception:  # noqa: BLE001
            continue
    return False, "no difference reproduced"
