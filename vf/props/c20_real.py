"""Stub validation for C20 (thorough tier, not deciding): with the REAL SciPy, an
exception raised inside the k-th objective / gradient / constraint callback
propagates out of scipy.optimize.minimize, and optyx then restores the process
state."""
import sys
import warnings

import numpy as np


def main():
    from optyx import Problem, Variable
    import optyx.core.compiler as C
    n = 0
    for method in ("SLSQP", "trust-constr", "L-BFGS-B"):
        for exc in (ValueError, FloatingPointError, MemoryError, KeyboardInterrupt):
            for k in (1, 2, 3):
                x, y = Variable("x", lb=-2, ub=2), Variable("y")
                p = Problem().minimize((x - 1) ** 2 + (y + 0.5) ** 2)
                if method != "L-BFGS-B":
                    p.subject_to(x + y >= 0.2)
                cnt = {"n": 0}
                orig = C.compile_expression

                def wrapped(e, vs, orig=orig, cnt=cnt, k=k, exc=exc):
                    f = orig(e, vs)

                    def g(xv):
                        cnt["n"] += 1
                        if cnt["n"] == k:
                            raise exc("injected")
                        return f(xv)
                    return g
                import optyx.solvers.scipy_solver as ss
                C.compile_expression = wrapped
                show0, lim0 = warnings.showwarning, sys.getrecursionlimit()
                try:
                    try:
                        s = p.solve(method=method)
                        out = ("returned", s.status.name)
                    except BaseException as e:  # noqa: BLE001
                        out = ("raised", type(e).__name__)
                finally:
                    C.compile_expression = orig
                if warnings.showwarning is not show0 or sys.getrecursionlimit() != lim0:
                    print(f"STATE NOT RESTORED {method} {exc.__name__} k={k}")
                    return 1
                if not (out == ("returned", "FAILED") or out == ("raised", exc.__name__)):
                    print(f"UNEXPECTED OUTCOME {method} {exc.__name__} k={k}: {out}")
                    return 1
                n += 1
    print(f"{n} real-SciPy fault injections behave as the stub assumes")
    return 0


if __name__ == "__main__":
    sys.exit(main())
