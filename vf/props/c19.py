"""C19 - derivative callables stay finite at singular points.

The real derivative closures (general symbolic_gradient / jacobian_fn /
hessian_fn, every grad_<op>[_sparse], grad_power_*, hess_power_*,
hess_<op>[_sparse], constant / scaled fast paths) are executed over XReal:
extended reals (kind in {finite, +inf, -inf, NaN}, value) with the IEEE / NumPy
special-value rules encoded as z3 If-terms.  Every input x_i is a FINITE
symbolic real.  The argument of every _sanitize_derivatives call is recorded
(from outside) as the raw array.  z3 proves for all finite x:
  F  every output entry is finite;
  R  an entry whose raw value is finite is returned unchanged; NaN -> 0,
     +inf -> 1e16, -inf -> -1e16;
  V  the vectorised path equals the general path entrywise (also at singular
     points).
A closure that forgets to sanitise yields sat with e.g. x_i = 0, replayed on
real floats."""
from __future__ import annotations

import numpy as np
import z3

from vf.engine.recipes import free_names, show
from vf.engine.xreal import FIN, NAN, NINF, PINF, XReal, kt
from vf.props import common as K
from vf.props.common import harness_error, inconclusive, proved, violation

ID = "C19"
LEVEL = "model_checking"
ITEM_BUDGET_S = {"quick": 400, "thorough": 1500}
QT = {"quick": 10000, "thorough": 30000}
_TIER = "quick"
BIG = 1e16
PATHS_SEEN = set()

META = dict(
    rule="one case = (recipe, variable order, closure kind in {gradient, jacobian, hessian}, obligation F/R/V, path through the sanitiser)",
    bounds={
        "quick": "vectorised sums: VectorPowerSum k in {1,2,3,0.5,-1,-0.5,1.5,-2} and VectorUnarySum for all 10 ops, full / sparse / permuted variable lists, n=2; general closures on 40 recipes built from abs, sqrt, log, 1/x, x**k (k<1), norms, tan, products thereof; Hessians for the same (n<=2)",
        "thorough": "n=3 and the depth<=2 scalar family restricted to singular-capable operators",
    },
    outside=["overflow to +-inf of finite operations (exp(1000)): S7", "signed zeros (the sign of a sanitised infinity when the divisor is -0.0)", "rounding", "non-finite inputs x"],
    assumptions=["XReal special-value table is validated against NumPy on every run (conformance item)", "S1", "S2", "S3 over XReal (exact kind tests)", "S6"],
    exhaustive_within_bounds=True,
)


def worker_init(tier, seed):
    global _TIER
    _TIER = tier


def recipes(tier):
    n = 2 if tier == "quick" else 3
    v = ("vec", "v", n)
    X, Y = K.X, K.Y
    vec = []
    for k in (1, 2, 3, 0.5, -1, -0.5, 1.5, -2):
        vec.append(("vsum", ("vpow", v, k)))
    for op in K.R.VEC_UNARY:
        vec.append(("vsum", ("vun", op, v)))
    gen = [
        ("un", "abs", X), ("un", "sqrt", X), ("un", "log", X), ("bin", "/", ("num", 1.0), X), ("bin", "**", X, ("const", 0.5)), ("bin", "**", X, ("const", -1)),
        ("bin", "**", X, ("const", 1.5)), ("bin", "**", X, ("const", -0.5)), ("un", "tan", X), ("norm", v, 2), ("norm", v, 1),
        ("bin", "*", ("un", "abs", X), Y), ("bin", "+", ("un", "sqrt", X), ("un", "log", Y)), ("bin", "/", Y, X), ("bin", "/", X, ("bin", "*", X, Y)),
        ("un", "sqrt", ("bin", "*", X, Y)), ("un", "log", ("bin", "+", X, Y)), ("un", "abs", ("bin", "-", X, Y)), ("bin", "*", X, ("un", "log", X)),
        ("un", "sqrt", ("un", "abs", X)), ("un", "log", ("un", "abs", X)), ("bin", "/", ("un", "abs", X), X), ("bin", "**", ("un", "abs", X), ("const", 1.5)),
        ("un", "asin", X), ("un", "acos", X), ("un", "atanh", X), ("un", "acosh", X), ("un", "log2", X), ("un", "log10", X),
        ("norm", ("vbin", "-", v, ("vec", "w", n)), 2), ("bin", "*", ("norm", v, 2), X), ("bin", "/", X, ("norm", v, 2)),
        ("vsum", ("vrbin", "/", ("sc", 1.0), v)), ("dot", v, v), ("vsum", v), ("lincomb", [1.0, 2.0, 3.0][:n], v),
        ("bin", "*", ("num", 2.0), ("dot", v, v)), ("bin", "+", X, Y), ("bin", "*", X, X), ("fro", ("mat", "A", 2, 2)), ("un", "exp", ("bin", "/", ("num", 1.0), X)),
        # a singular term next to regular ones in OTHER variables (their entries must stay what they are)
        ("bin", "+", ("bin", "/", Y, X), ("bin", "*", ("num", 3.0), K.Z)), ("bin", "+", ("un", "log", X), ("bin", "*", Y, Y)),
        ("bin", "-", ("bin", "*", ("num", 2.0), K.Z), ("bin", "/", ("num", 1.0), ("bin", "*", X, Y))),
    ]
    return vec, gen


def items(tier, seed):
    vec, gen = recipes(tier)
    its = [("xreal-table", 0), ("twin", 0)]
    for r in vec:
        its.append(("vec", r))
    for ch in K.chunks(gen, 3):
        its.append(("gen", ch))
    return its


# --------------------------------------------------------------------------
def xval(names):
    return {n: XReal.var(n) for n in names}


class RawTap:
    """records the argument of every _sanitize_derivatives call (from outside)"""

    def __enter__(self):
        import optyx.core.compiler as C
        self.C = C
        self.orig = C._sanitize_derivatives
        self.raw = []

        def tap(arr):
            self.raw.append(np.array(arr, dtype=object, copy=True))
            return self.orig(arr)
        C._sanitize_derivatives = tap
        return self

    def __exit__(self, *a):
        self.C._sanitize_derivatives = self.orig


def observe(recipe, order, val, which):
    """-> (output array, raw arrays given to the sanitiser, closure name)"""
    from optyx import Variable
    from optyx.core import autodiff as A
    from optyx.core import compiler as C
    from optyx.core.expressions import BinaryOp, Constant
    b, e = K.build_recipe(recipe, val)
    decl = set(free_names(recipe)["vars"])
    V = [b.S(("var", n)) if n in decl else Variable(n) for n in order]
    x = np.empty(len(order), dtype=object)
    for i, n in enumerate(order):
        x[i] = val[n]
    if not any(isinstance(t, XReal) for t in x):
        x = np.array([float(t) for t in x])
    general = which.endswith("-general")
    if general:
        e = BinaryOp(e, Constant(0.0), "+")
    kind = which.split("-")[0]
    old_th = None
    if which.endswith("-deep"):
        # the deep-tree (iterative) differentiation / compilation algorithms, forced from outside
        from vf.props import c15
        from vf.engine import npshim
        old_th = c15.set_thresholds(0)
        npshim.clear_optyx_caches()
    try:
        with RawTap() as tap:
            if kind == "gradient":
                f = C.compile_gradient(e, V)
            elif kind == "jacobian":
                f = A.compile_jacobian([e], V)
            else:
                f = A.compile_hessian(e, V)
            out = f(x)
    finally:
        if old_th is not None:
            c15.restore_thresholds(old_th)
            npshim.clear_optyx_caches()
    return np.asarray(out, dtype=object), tap.raw, f.__name__


def _fin(t):
    return t.fin() if isinstance(t, XReal) else True


def check_recipe(recipe, vectorised, planted=False):
    from vf.engine import smt
    from vf.engine.sym import SymbolicConcretisation, sbool_term
    res = []
    names = free_names(recipe)
    used = names["vars"]
    orders = [list(used), list(reversed(used)), ["u0"] + list(used), list(used) + ["u0"]]
    if len(used) > 1:
        orders.append(used[:1] + ["u0"] + used[1:])
    allv = used + ["u0"]
    val = xval(allv)
    shp = K.shape(recipe, 3)
    kinds = ["gradient", "jacobian", "hessian"]
    for order in orders:
        for kind in kinds:
            if kind == "hessian" and len(order) > 3:
                continue
            whichs = [kind] + ([kind + "-general"] if vectorised else [kind + "-deep"])
            outs = {}
            for which in whichs:
                for dec, labels, pc, got in K.explore(lambda: _safe(recipe, order, val, which), max_paths=400):
                    what = f"{which} {show(recipe)[:70]} V={order}"
                    payload = dict(kind="fin", recipe=K.enc(recipe), order=order, which=which)
                    if isinstance(got, SymbolicConcretisation):
                        res.append(harness_error(f"concretisation: {got}", item=what))
                        continue
                    if isinstance(got, Exception):
                        res.append(violation(f"C19|{which}|raises:{type(got).__name__}|{shp}", f"{what} raises {type(got).__name__}: {str(got)[:100]}", dict(payload, kind="raises")))
                        continue
                    out, raws, fname = got
                    PATHS_SEEN.add(fname)
                    flat = list(out.reshape(-1))
                    # F: every entry finite
                    fin = [_fin(t) for t in flat]
                    if planted:
                        fin = fin + [z3.BoolVal(False)]
                    sig = f"C19|{kind}|{fname}|non-finite|{shp}"
                    res.append(K.decide([f for f in fin if not isinstance(f, bool) or not f], pc, [], f"{what} via {fname}: all entries finite", sig, dict(payload, fname=fname), allv, QT[_TIER]))
                    # R: sanitiser contract on the recorded raw arrays (the last raw array has the output's shape)
                    raw = None
                    for r_ in reversed(raws):
                        if r_.size == out.size or (kind == "hessian" and r_.size * r_.size == out.size):
                            raw = r_
                            break
                    if raw is not None:
                        rflat = list(raw.reshape(-1))
                        oflat = flat if len(rflat) == len(flat) else [out[i, i] for i in range(len(rflat))]
                        claims = []
                        for rt, ot in zip(rflat, oflat):
                            if not isinstance(rt, XReal):
                                rt = XReal.lift(rt)
                            if not isinstance(ot, XReal):
                                ot = XReal.lift(ot)
                            exp = z3.If(kt(rt.k) == FIN, rt.v, z3.If(kt(rt.k) == NAN, z3.RealVal(0), z3.If(kt(rt.k) == PINF, z3.RealVal(str(int(BIG))), z3.RealVal(str(-int(BIG))))))
                            claims.append(ot.v == exp)
                        res.append(K.decide(claims, pc, [], f"{what} via {fname}: finite entries unchanged, NaN->0, +-inf->+-1e16", f"C19|{kind}|{fname}|sanitise-contract|{shp}", dict(payload, fname=fname), allv, QT[_TIER]))
                    outs.setdefault(which, []).append((pc, flat, fname))
            # V: vectorised == general, D: recursive == deep-tree algorithms (pairwise over the explored paths)
            other = kind + ("-general" if vectorised else "-deep")
            if len(outs) == 2:
                for pc1, f1, n1 in outs[kind]:
                    for pc2, f2, n2 in outs[other]:
                        if len(f1) != len(f2):
                            res.append(violation(f"C19|{kind}|shape|{shp}", f"{kind}: vectorised and general shapes differ", dict(kind="raises", recipe=K.enc(recipe), order=order, which=kind)))
                            continue
                        claims = []
                        for a, b in zip(f1, f2):
                            a = a if isinstance(a, XReal) else XReal.lift(a)
                            b = b if isinstance(b, XReal) else XReal.lift(b)
                            claims.append(a.v == b.v)
                        res.append(K.decide(claims, list(pc1) + list(pc2), [], f"{kind} {show(recipe)[:60]} V={order}: {n1} == {n2}{'' if vectorised else ' [deep-tree algorithms]'} entrywise (incl. singular points)",
                                            f"C19|{kind}|{n1}|differs-from-{'general' if vectorised else 'deep'}|{shp}", dict(kind="vec", recipe=K.enc(recipe), order=order, which=kind, other=other, fname=n1), allv, QT[_TIER]))
    return res


def _safe(recipe, order, val, which):
    try:
        return observe(recipe, order, val, which)
    except Exception as e:  # noqa: BLE001
        return e


def check(item):
    kind, payload = item
    try:
        if kind == "vec":
            out = check_recipe(payload, True)
            out.append(dict(status="conformance", what="closures: " + ",".join(sorted(PATHS_SEEN)), points=0))
            return out
        if kind == "gen":
            out = []
            for r in payload:
                out += check_recipe(r, False)
            out.append(dict(status="conformance", what="closures: " + ",".join(sorted(PATHS_SEEN)), points=0))
            return out
        if kind == "twin":
            rr = check_recipe(("un", "sqrt", K.X), False, planted=True)
            ok = any(x["status"] == "violation" for x in rr)
            # a closure that does not sanitise must be refuted: 1/x through a raw (unsanitised) lambda
            from vf.engine import smt
            x = XReal.var("x")
            raw = 1.0 / x
            v = smt.valid(raw.fin(), [], [])
            ok = ok and v.status == "sat"
            return [dict(status="conformance", what="twin refuted (planted + unsanitised 1/x)", points=1) if ok else harness_error("twin not refuted")]
        if kind == "xreal-table":
            return xreal_table()
    except Exception as e:  # noqa: BLE001
        import traceback
        return [harness_error(f"{type(e).__name__}: {e}", item=repr(payload)[:200], tb=traceback.format_exc()[-1500:])]
    raise ValueError(kind)


def xreal_table():
    """conformance of the XReal special-value rules with NumPy itself"""
    import math
    import warnings
    from vf.engine.evalterm import eval_term
    vals = [0.0, 1.0, -1.0, 2.5, -0.5, float("inf"), float("-inf"), float("nan")]
    out = []
    pts = 0

    def kind_of(f):
        return NAN if math.isnan(f) else PINF if f == math.inf else NINF if f == -math.inf else FIN

    def model(x):
        k = x.k if isinstance(x.k, int) else z3.simplify(x.k).as_long()
        v = eval_term(z3.simplify(x.v), {}) if k == FIN else None
        return k, v

    def cmp(label, got, want):
        nonlocal pts
        pts += 1
        k, v = model(got)
        wk = kind_of(float(want))
        if k != wk or (k == FIN and not K.close(v, float(want), 1e-9, 1e-12)):
            out.append(harness_error(f"XReal table mismatch {label}: model kind={k} val={v}, NumPy gives {want!r}"))

    with warnings.catch_warnings(), np.errstate(all="ignore"):
        warnings.simplefilter("ignore")
        for a in vals:
            A_ = XReal.lift(a)
            fa = np.float64(a)
            for name, mf, nf in [("neg", lambda t: -t, lambda t: -t), ("abs", abs, np.abs), ("sign", lambda t: t.sign(), np.sign), ("sqrt", lambda t: t.sqrt(), np.sqrt),
                                 ("log", lambda t: t.log(), np.log), ("exp", lambda t: t.exp(), np.exp), ("sin", lambda t: t.sin(), np.sin), ("cos", lambda t: t.cos(), np.cos),
                                 ("tanh", lambda t: t.tanh(), np.tanh), ("sinh", lambda t: t.sinh(), np.sinh), ("cosh", lambda t: t.cosh(), np.cosh)]:
                cmp(f"{name}({a})", mf(A_), nf(fa))
            for k in (2, 3, -1, -2, 0.5, -0.5, 1.5, 0, 1, 4, -3):
                if a == 0.0 and k < 0:
                    cmp(f"{a}**{k}", A_ ** k, np.float64(np.inf))  # +0 only (signed zeros are outside the model)
                else:
                    cmp(f"{a}**{k}", A_ ** k, np.power(fa, np.float64(k)))
            for b in vals:
                B_ = XReal.lift(b)
                fb = np.float64(b)
                cmp(f"{a}+{b}", A_ + B_, fa + fb)
                cmp(f"{a}-{b}", A_ - B_, fa - fb)
                cmp(f"{a}*{b}", A_ * B_, fa * fb)
                if not (b == 0.0 and False):
                    cmp(f"{a}/{b}", A_ / B_, fa / fb)
        # nan_to_num and isfinite
        for a in vals:
            A_ = XReal.lift(a)
            cmp(f"nan_to_num({a})", A_.nan_to_num(0.0, BIG, -BIG), np.nan_to_num(np.float64(a), nan=0.0, posinf=BIG, neginf=-BIG))
            f = A_.isfinite()
            pts += 1
            if bool(f) != bool(np.isfinite(np.float64(a))):
                out.append(harness_error(f"isfinite({a}) mismatch"))
    out.append(dict(status="conformance", what=f"XReal special-value table == NumPy on {pts} cases", points=pts))
    return out


def replay(payload):
    import random
    recipe = K.dec(payload["recipe"])
    order = payload["order"]
    which = payload["which"]
    names = free_names(recipe)
    allv = list(dict.fromkeys(names["vars"] + order))
    rng = random.Random(19)
    from fractions import Fraction
    base = {k: float(Fraction(v)) for k, v in payload.get("values", {}).items() if k in allv}
    pts = [dict({n: 0.0 for n in allv}, **base)]
    specials = [0.0, 1.0, -1.0, 0.5, -0.5, 2.0]
    for _ in range(60):
        pts.append({n: rng.choice(specials) for n in allv})
    import warnings
    for pt in pts:
        with warnings.catch_warnings(), np.errstate(all="ignore"):
            warnings.simplefilter("ignore")
            got = _safe(recipe, order, pt, which)
            if isinstance(got, Exception):
                if payload["kind"] == "raises":
                    return True, f"{which} raises {got!r} at {pt}"
                continue
            out, raws, fname = got
            o = np.asarray(out, dtype=float)
            if not np.all(np.isfinite(o)):
                return True, f"{which} via {fname} returns non-finite entries {o.tolist()} at finite x={pt}"
            for r_ in raws:
                r = np.asarray(r_, dtype=float).reshape(-1)
                if r.size == o.size:
                    exp = np.nan_to_num(r, nan=0.0, posinf=BIG, neginf=-BIG)
                    if not np.allclose(exp, o.reshape(-1), rtol=1e-12, atol=0):
                        return True, f"{which} via {fname}: raw {r.tolist()} sanitised to {o.reshape(-1).tolist()}, expected {exp.tolist()} at x={pt}"
            if payload["kind"] == "vec":
                other = payload.get("other") or (which + "-general")
                g2 = _safe(recipe, order, pt, other)
                if not isinstance(g2, Exception):
                    o2 = np.asarray(g2[0], dtype=float)
                    if o2.shape == o.shape and not np.allclose(o, o2, rtol=1e-9, atol=1e-12, equal_nan=True):
                        return True, f"{which}: {fname} gives {o.tolist()} but the {'deep-tree algorithms give' if other.endswith('-deep') else 'general path gives'} {o2.tolist()} at x={pt}"
    return False, "no difference reproduced"
