"""C17 - symbolic and compiled Hessians are the true symmetric second
derivatives.

compute_hessian (gradient of gradient *outputs*) and compile_hessian (diagonal
shortcuts for the vectorised sums, upper-triangle mirroring otherwise) of the
real code are executed on symbolic points for every ordering / superset V; z3
proves H[i][j] == d2[[e]]/dV_i dV_j (nested dual numbers over the reference
interpreter) for all x, and H == H^T."""
from __future__ import annotations

import random

import numpy as np

from vf.engine.recipes import Ref, free_names, show
from vf.props import common as K
from vf.props.common import harness_error, inconclusive, proved, violation

ID = "C17"
LEVEL = "model_checking"
ITEM_BUDGET_S = {"quick": 400, "thorough": 1500}
QT = {"quick": 15000, "thorough": 8000}
_TIER = "quick"
PATHS_SEEN = set()

META = dict(
    rule="one case = (recipe, variable order V, observation in {compute_hessian, compile_hessian}, path); all n^2 entries are one conjunction (split per entry when the solver gives up)",
    bounds={
        "quick": "recipes with <= 4 variables from the depth<=2 family (sample of 220) + every vector/matrix reduction at n=2 (3 for the vectorised sums), VectorPowerSum k in {1,2,3,4,0.5,-1,2.5}, VectorUnarySum all 10 ops; V: permutations (<=3 vars) / rotations, supersets with one unused variable",
        "thorough": "600 recipes of the depth<=2 family with <= 5 variables (second derivatives of depth-3 compositions were measured at about one CPU-minute per recipe and are left out), the basic vector node kinds also over 3-vectors, 30 VERIF_SEED random depth-2 recipes",
    },
    outside=["rounding (S7)", "non-regular points", "Hessian of maximise-negation inside solve (C09)"],
    assumptions=["S1", "S2", "S3", "S6", "S7"],
    exhaustive_within_bounds=True,
)


def worker_init(tier, seed):
    global _TIER
    _TIER = tier


def family(tier):
    out = []
    out += K.vec_nodes(2, full=True)
    if tier == "thorough":
        out += K.vec_nodes(3, full=False)   # the basic node kinds once more over 3-vectors (6 variables with v and w)
    v3 = K.V3
    for k in (1, 2, 3, 4, 0.5, -1, 2.5):
        out.append(("vsum", ("vpow", v3, k)))
        out.append(("vsum", ("vpow", ("slice", v3, 1, 3, None), k)))
    for op in K.R.VEC_UNARY:
        out.append(("vsum", ("vun", op, v3)))
        out.append(("vsum", ("vun", op, ("slice", v3, None, None, -1))))
    out += [
        ("dot", ("slice", v3, 0, 2, None), ("slice", v3, 1, 3, None)),
        ("quad", v3, [[1.0, ("sym", "q"), 0.0], [2.0, 1.0, 0.5], [0.0, -1.0, 3.0]]),
        ("bin", "*", ("vsum", v3), ("dot", v3, v3)),
        ("un", "exp", ("dot", v3, K.W3)) if tier == "thorough" else ("un", "exp", ("vsum", v3)),
        ("norm", v3, 2), ("norm", v3, 1),
        ("bin", "*", ("param", "p"), ("dot", v3, v3)),
        ("bin", "*", ("bin", "*", ("param", "p"), K.X), K.Y), ("bin", "**", K.X, ("param", "p")), ("bin", "*", ("un", "exp", ("param", "p")), ("bin", "*", K.X, K.X)),
        ("bin", "+", ("bin", "*", ("param", "p"), ("bin", "**", K.X, ("const", 2))), ("bin", "*", ("param", "q"), ("bin", "*", K.X, K.Y))),
        ("bin", "/", ("num", 1.0), ("vsum", v3)),
    ]
    # nested constant powers (second derivatives pass through the power rule's own simplifications twice) and
    # same-named Parameter objects: always part of the family, not left to the sample
    XmY = ("bin", "-", K.X, K.Y)
    for k1, k2 in ((2, 1.5), (2, 0.5), (2, 2.5), (3, 2), (2, -1), (4, 0.75)):
        out.append(("bin", "**", ("bin", "**", XmY, ("const", k1)), ("const", k2)))
        out.append(("bin", "+", ("bin", "**", ("bin", "**", K.X, ("const", k1)), ("const", k2)), ("bin", "*", K.X, K.Y)))
    out += [("bin", "+", ("bin", "*", ("pdup", "p", 0), ("bin", "*", K.X, K.X)), ("bin", "*", ("pdup", "p", 1), ("bin", "*", K.X, K.Y)))]
    fam = [r for r in K.scalar_family("quick") if len(free_names(r)["vars"]) <= (4 if tier == "quick" else 5)]
    if tier == "quick":
        fam = random.Random(17).sample(fam, 220)
    else:
        fam = random.Random(17).sample(fam, min(len(fam), 600))
    out += fam
    seen, uniq = set(), []
    for r in out:
        k = repr(r)
        if k not in seen:
            seen.add(k)
            uniq.append(r)
    return uniq


def items(tier, seed):
    fam = family(tier)
    if tier == "thorough":
        fam += K.random_recipes(seed, 30, 2)
    its = [("twin", 0)] + [("rs", ch) for ch in K.chunks(fam, 2)]
    return its + K.touched_items(its, 3, ("rs",))


def observe(recipe, order, val):
    from optyx import Variable
    from optyx.core import autodiff as A
    b, e = K.build_recipe(recipe, val)
    decl = set(free_names(recipe)["vars"])
    V = [b.S(("var", n)) if n in decl else Variable(n) for n in order]
    x = np.empty(len(order), dtype=object)
    for i, n in enumerate(order):
        x[i] = val[n]
    if not any(hasattr(t, "t") for t in x):
        x = np.array([float(t) for t in x])
    point = {n: val[n] for n in order}
    out = {}
    names = {}

    def rec(name, fn):
        try:
            out[name] = fn()
        except Exception as ex:  # noqa: BLE001
            out[name] = ex

    def sym():
        H = A.compute_hessian(e, V)
        return np.array([[h.evaluate(point) for h in row] for row in H], dtype=object)
    rec("compute_hessian", sym)

    def comp():
        f = A.compile_hessian(e, V)
        names["compile_hessian"] = f.__name__
        return np.asarray(f(x))
    rec("compile_hessian", comp)
    if b.params and all(n + "'" in val for n in b.params):
        # Hessian expressions / callables BUILT at the old parameter values, used after the update
        try:
            Hs = A.compute_hessian(e, V)
        except Exception as ex:  # noqa: BLE001
            Hs = ex
        try:
            f = A.compile_hessian(e, V)
            names["upd:compile_hessian"] = f.__name__
        except Exception as ex:  # noqa: BLE001
            f = ex
        for n, p_ in b.params.items():
            p_.set(val[n + "'"])
        if isinstance(Hs, Exception):
            out["upd:compute_hessian"] = Hs
        else:
            rec("upd:compute_hessian", lambda: np.array([[h.evaluate(point) for h in row] for row in Hs], dtype=object))
        if isinstance(f, Exception):
            out["upd:compile_hessian"] = f
        else:
            rec("upd:compile_hessian", lambda: np.asarray(f(x)))
    out["__names__"] = names
    return out


def check_recipe(recipe, planted=False):
    from vf.engine import smt
    from vf.engine.sym import SymbolicConcretisation
    res = []
    names = free_names(recipe)
    used = names["vars"]
    orders = K.variable_orders(used, tier=_TIER)
    if len(used) > 3:
        orders = orders[:2] + orders[-1:]
    allv = used + ["u0", "u1"] + names["syms"] + names["params"] + [n + "'" for n in names["params"]]
    val = K.sym_val(allv)
    val1 = {**val, **{n: val[n + "'"] for n in names["params"]}}
    oracle, oracle_upd = {}, {}
    dom, dom_upd = [], []
    for i, wi in enumerate(used):
        for wj in used[i:]:
            ref = Ref(K.dual_val(val, wi, wj), diff=2)
            o = K.second(ref.S(recipe))
            oracle[(wi, wj)] = oracle[(wj, wi)] = o + (1.0 if planted else 0.0)
            if not dom:
                dom = ref.dom
            if names["params"]:
                ref = Ref(K.dual_val(val1, wi, wj), diff=2)
                o = K.second(ref.S(recipe))
                oracle_upd[(wi, wj)] = oracle_upd[(wj, wi)] = o + (1.0 if planted else 0.0)
                if not dom_upd:
                    dom_upd = ref.dom
    dom_upd = dom + dom_upd
    oracle_plain, dom_plain = oracle, dom
    shp = K.shape(recipe, 3)
    for order in orders:
        for dec, labels, pc, out in K.explore(lambda: observe(recipe, order, val), max_paths=200):
            nm = out.pop("__names__")
            PATHS_SEEN.update(nm.values())
            for name, got in out.items():
                oracle, dom = (oracle_upd, dom_upd) if name.startswith("upd:") else (oracle_plain, dom_plain)
                fp = nm.get(name, "")
                what = f"{name} {show(recipe)[:100]} V={order}" + (f" via {fp}" if fp else "")
                payload = dict(kind="value", obs=name, recipe=K.enc(recipe), order=order)
                if isinstance(got, SymbolicConcretisation):
                    res.append(K.vacuous_or_error(got, pc, dom, what, show(recipe)))
                    continue
                if isinstance(got, Exception):
                    res.append(violation(f"C17|{name}|raises:{type(got).__name__}|{shp}", f"{what} raises {type(got).__name__}: {str(got)[:100]}", dict(payload, kind="raises")))
                    continue
                n = len(order)
                if n == 0:
                    continue
                if got.shape != (n, n):
                    res.append(violation(f"C17|{name}|shape|{shp}", f"{what}: shape {got.shape}", dict(payload, kind="raises")))
                    continue
                claims = []
                for i, wi in enumerate(order):
                    for j, wj in enumerate(order):
                        o = oracle.get((wi, wj), 0.0 + (1.0 if planted else 0.0))
                        claims.append(smt.eq(got[i, j], o))
                res.append(K.decide(claims, pc, dom, what, f"C17|{name}|{fp}|wrong-entry|{shp}", payload, allv, QT[_TIER]))
    return res


def check(item):
    kind, payload = item
    if kind == "touched":
        return K.run_touched(check, payload)
    if kind == "rs":
        out = K.safe_items(check_recipe, payload, show)
        out.append(dict(status="conformance", what="paths: " + ",".join(sorted(PATHS_SEEN)), points=0))
        return out
    if kind == "twin":
        out = []
        for r in [("bin", "*", K.X, K.Y), ("vsum", ("vpow", K.V3, 3)), ("vsum", ("vun", "sin", K.V3))]:
            rr = check_recipe(r, planted=True)
            nv = sum(x["status"] == "violation" for x in rr)
            np_ = sum(x["status"] == "proved" for x in rr)
            if nv == 0 or np_ > 0:
                out.append(harness_error(f"reachability twin not refuted for {r}: {nv} refuted, {np_} proved"))
            else:
                out.append(dict(status="conformance", what=f"twin refuted {r}", points=1))
        return out
    raise ValueError(kind)


def replay(payload):
    r_ = K.replay_touched(replay, payload)
    if r_ is not None:
        return r_
    recipe = K.dec(payload["recipe"])
    order = payload["order"]
    name = payload["obs"]
    names = free_names(recipe)
    allv = list(dict.fromkeys(names["vars"] + order + names["syms"] + names["params"] + [n + "'" for n in names["params"]]))
    upd = name.startswith("upd:")
    if payload["kind"] == "raises":
        out = observe(recipe, order, {n: 0.7 for n in allv})
        if isinstance(out[name], Exception):
            return True, f"{name} raises {type(out[name]).__name__}: {out[name]}"
        return False, "no exception on replay"
    for pt in K.candidate_points(allv, payload.get("values", {}), 17):
        try:
            with np.errstate(all="ignore"):
                out = observe(recipe, order, pt)
            got = out[name]
            if isinstance(got, Exception):
                continue
            H = np.asarray(got, dtype=float)
            rpt = {**pt, **{n: pt[n + "'"] for n in names["params"]}} if upd else pt
            for i, wi in enumerate(order):
                for j, wj in enumerate(order):
                    if wi in names["vars"] and wj in names["vars"]:
                        with np.errstate(all="ignore"):
                            r, ok = K.concrete_ref(recipe, rpt, diff=2, wrt=wi, wrt2=wj)
                            if ok and upd:
                                ok = K.concrete_ref(recipe, pt, diff=2, wrt=wi, wrt2=wj)[1]
                        if not ok:
                            raise ValueError("irregular")
                        ref = float(K.second(r))
                    else:
                        ref = 0.0
                    g = float(H[i, j])
                    if np.isfinite(g) and np.isfinite(ref) and not K.close(g, ref, 1e-6, 1e-8):
                        return True, f"at {pt}: {name}[{i}][{j}] = {g!r}, reference d2/d{wi}d{wj} = {ref!r}"
        except Exception:  # noqa: BLE001
            continue
    return False, "no numeric difference reproduced"
