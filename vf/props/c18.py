"""C18 - integrality is never relaxed silently.

Exhaustive case split: declaration route (scalar, vector, matrix, slice,
transpose, diagonal, diag_matrix, row / column views) x domain {integer,
binary} x method (8) x strict x LP / NLP route, with SYMBOLIC declared bounds
and data.  Asserted:
  strict=True  raises IntegerVariableError listing exactly the non-continuous
               problem variables, with ZERO solver (stub) invocations;
  otherwise    exactly one UserWarning naming exactly those variables, and the
               recorded solver arguments equal (for all x, z3) those of the same
               model declared continuous (binary -> bounds [0,1]);
  binary elements carry lb=0, ub=1 whatever lb / ub were declared, through
  every route.
Histories: the same obligations for a solve that is NOT the first solve of the
problem object (after a relaxed solve, after a strict solve that raised, after
solves with another method): the report is per solve, not per compilation."""
from __future__ import annotations

import warnings

import numpy as np

from vf.engine import stubs
from vf.props import common as K
from vf.props import c13
from vf.props.common import harness_error, inconclusive, proved, violation

ID = "C18"
LEVEL = "model_checking"
ITEM_BUDGET_S = {"quick": 300, "thorough": 900}
QT = {"quick": 10000, "thorough": 30000}
_TIER = "quick"
METHODS = ["auto", "linprog", "highs", "highs-ds", "highs-ipm", "SLSQP", "trust-constr", "L-BFGS-B"]
ROUTES = ["scalar", "vector", "vector-slice", "vector-reversed", "matrix", "matrix-T", "matrix-row", "matrix-col", "matrix-diag", "matrix-diag-func", "matrix-slice", "diag_matrix", "symmetric", "mixed"]

META = dict(
    rule="one case = (declaration route, domain, LP/NLP model, method, strict); the comparison with the continuous twin quantifies over x and the symbolic bounds",
    bounds={
        "quick": "14 routes x {integer, binary} x {linear, nonlinear objective} x 8 methods x {strict, non-strict}; n=3 vectors, 2x2 matrices",
        "thorough": "same (the space is finite and fully enumerated in both tiers)",
    },
    outside=["methods outside the 8 listed", "the reply of the solver (fixed non-branching reply)", "rounding (S7)"],
    assumptions=["S4/S5 'fixed' record the arguments", "S1", "S2", "S7"],
    exhaustive_within_bounds=True,
)


def worker_init(tier, seed):
    global _TIER
    _TIER = tier


def build(route, domain, linear, val):
    """-> (objective expr, [constraints], handles declared with the domain)"""
    from optyx import MatrixVariable, Variable, VectorVariable, diag, diag_matrix
    lb, ub = val["lb"], val["ub"]
    twin = domain is None

    def kw(dom_for_twin):
        # declared bounds are passed in both; the twin of a binary gets [0,1]
        if twin:
            if dom_for_twin == "binary":
                return dict(lb=0.0, ub=1.0)
            return dict(lb=lb, ub=ub)
        return dict(lb=lb, ub=ub, domain=dom_for_twin)

    d = val["_domain"]
    y = Variable("y", lb=val["ly"], ub=None)   # a continuous companion
    elems = []
    if route == "scalar":
        x = Variable("x", **kw(d))
        elems = [x]
    elif route in ("vector", "vector-slice", "vector-reversed"):
        v = VectorVariable("v", 3, **kw(d))
        h = v if route == "vector" else v[0:2] if route == "vector-slice" else v[::-1]
        elems = list(h)
    elif route.startswith("matrix") or route == "symmetric":
        A = MatrixVariable("A", 2, 2, symmetric=(route == "symmetric"), **kw(d))
        if route in ("matrix", "symmetric"):
            elems = [A[i, j] for i in range(2) for j in range(2)]
        elif route == "matrix-T":
            T = A.T
            elems = [T[i, j] for i in range(2) for j in range(2)]
        elif route == "matrix-row":
            elems = list(A[1, :])
        elif route == "matrix-col":
            elems = list(A[:, 0])
        elif route == "matrix-diag":
            elems = list(A.diagonal())
        elif route == "matrix-diag-func":
            elems = list(diag(A))
        elif route == "matrix-slice":
            Sx = A[0:1, 0:2]
            elems = [Sx[0, 0], Sx[0, 1]]
    elif route == "diag_matrix":
        v = VectorVariable("v", 2, **kw(d))
        D = diag_matrix(v)
        elems = [D[i, j] for i in range(2) for j in range(2)]
    elif route == "mixed":
        x = Variable("x", **kw(d))
        v = VectorVariable("v", 2, **kw("integer" if d == "binary" else "binary"))
        elems = [x] + list(v)
    uniq = []
    for e in elems:
        if all(e is not u for u in uniq):
            uniq.append(e)
    c = val["c"]
    if linear:
        obj = y * c
        for i, e in enumerate(uniq):
            obj = obj + e * float(i + 1)
        cons = [uniq[0] + y >= val["r"]]
    else:
        obj = (y - c) ** 2
        for i, e in enumerate(uniq):
            obj = obj + (e - float(i)) ** 2
        cons = [uniq[0] * y <= val["r"]]
    return obj, cons, uniq


def run_case(route, domain, linear, method, strict, planted=False, pre=()):
    from optyx import Problem
    from optyx.core.errors import IntegerVariableError
    from vf.engine.sym import SReal
    res = []
    tag = f"{route}/{domain}/{'lin' if linear else 'nl'}/{method}/{'strict' if strict else 'relaxed'}"
    if pre:
        tag += " after " + ",".join(f"{m}:{'strict' if s_ else 'relaxed'}" for m, s_ in pre)
    sig0 = f"{route}|{domain}|{'lp' if linear else 'nlp'}" + ("|hist" if pre else "")
    allv = ["lb", "ub", "ly", "c", "r", "x", "y"] + [f"v[{i}]" for i in range(3)] + [f"A[{i},{j}]" for i in range(2) for j in range(2)] + [f"_diag_v[{i},{j}]" for i in range(2) for j in range(2)]
    val = K.sym_val(allv)
    val["_domain"] = domain
    payload = dict(kind="case", route=route, domain=domain, linear=linear, method=method, strict=strict, pre=[list(x) for x in pre])

    def history(prob, relaxed_only):
        # earlier solves of the SAME problem object (their outcome is not the subject here)
        for m, s_ in pre:
            if m.startswith("@"):
                continue
            with stubs.patched(stubs.MinimizeStub("fixed"), stubs.LinprogStub("fixed")), warnings.catch_warnings():
                warnings.simplefilter("ignore")
                try:
                    prob.solve(method=m, strict=False if relaxed_only else s_)
                except Exception:  # noqa: BLE001
                    pass

    def path():
        obj, cons, elems = build(route, domain, linear, val)
        p = Problem().minimize(obj)
        for c in cons:
            p.subject_to(c)
        history(p, False)
        expected = [v.name for v in p.variables if any(v is e for e in elems)]
        # the solve under test runs on a CLONE of the problem (copy.deepcopy / copy.copy): integrality is part of the model
        import copy as _copy
        for m, _s in pre:
            if m == "@deepcopy":
                p = _copy.deepcopy(p)
            elif m == "@copy":
                p = _copy.copy(p)
        nonc = [v.name for v in p.variables if v.domain != "continuous"]
        binb = [(v.name, v.lb, v.ub) for v in p.variables if v.domain == "binary"]
        ms, ls = stubs.MinimizeStub("fixed"), stubs.LinprogStub("fixed")
        exc = None
        with stubs.patched(ms, ls), warnings.catch_warnings(record=True) as w:
            warnings.simplefilter("always")
            try:
                p.solve(method=method, strict=strict)
            except Exception as e:  # noqa: BLE001
                exc = e
        ws = [(x.category.__name__, str(x.message)) for x in w]
        # the continuous twin: the SAME model (same routes, hence the same bounds) with every domain set to continuous
        obj2, cons2, _ = build(route, domain, linear, val)
        p2 = Problem().minimize(obj2)
        for c in cons2:
            p2.subject_to(c)
        for v_ in p2.variables:
            v_.domain = "continuous"
        history(p2, True)
        twin = c13.capture(p2, method)
        return dict(expected=expected, nonc=nonc, binb=binb, exc=exc, ws=ws, calls=(ms.calls, ls.calls, exc), twin=twin, cols=[v.name for v in p.variables])

    for dec, labels, pc, o in K.explore(path, max_paths=200):
        exp = o["expected"]
        if planted:
            exp = exp[1:]
        # the declared domain must survive every route
        if sorted(o["nonc"]) != sorted(exp):
            res.append(violation(f"C18|domain-lost|{sig0}", f"{tag}: non-continuous problem variables {o['nonc']} but {exp} were declared {domain}", payload))
            continue
        # binary bounds
        from vf.engine import smt
        claims = []
        for name, blb, bub in o["binb"]:
            if blb is None or bub is None:
                res.append(violation(f"C18|binary-bounds|{sig0}", f"{tag}: binary {name} has bounds ({blb}, {bub})", payload))
            else:
                claims += [smt.eq(blb, 0.0), smt.eq(bub, 1.0)]
        if claims:
            res.append(K.decide(claims, pc, [], f"{tag}: binary variables carry [0, 1]", f"C18|binary-bounds-values|{sig0}", payload, allv, QT[_TIER]))
        from optyx.core.errors import NonLinearError
        ncalls = len(o["calls"][0]) + len(o["calls"][1])
        if isinstance(o["exc"], Exception) and type(o["exc"]).__name__ in ("NonLinearError",):
            res.append(dict(status="conformance", what=f"{tag}: method not applicable (NonLinearError)", points=0))
            continue
        if strict:
            if not isinstance(o["exc"], IntegerVariableError):
                res.append(violation(f"C18|strict-no-error|{sig0}|{method}", f"{tag}: strict solve did not raise IntegerVariableError ({o['exc']!r})", payload))
            else:
                if sorted(o["exc"].variable_names or []) != sorted(exp):
                    res.append(violation(f"C18|strict-names|{sig0}|{method}", f"{tag}: error lists {o['exc'].variable_names}, expected {exp}", payload))
                elif ncalls != 0:
                    res.append(violation(f"C18|strict-solver-ran|{sig0}|{method}", f"{tag}: {ncalls} solver invocations before the error", payload))
                else:
                    res.append(proved(f"{tag}: raises before any solver runs, listing exactly D"))
            continue
        if o["exc"] is not None:
            res.append(violation(f"C18|relaxed-raises|{sig0}|{method}", f"{tag}: non-strict solve raises {o['exc']!r}", payload))
            continue
        uw = [m for c, m in o["ws"] if c == "UserWarning" and "integer/binary" in m]
        if len(uw) != 1:
            res.append(violation(f"C18|warning-count|{sig0}|{method}", f"{tag}: {len(uw)} relaxation warnings", payload))
        else:
            inside = uw[0][uw[0].index("[") + 1: uw[0].index("] have")] if "[" in uw[0] and "] have" in uw[0] else ""
            named = sorted(_split_names(inside))
            if named != sorted(exp):
                res.append(violation(f"C18|warning-names|{sig0}|{method}", f"{tag}: warning names {named}, expected {sorted(exp)}", payload))
            else:
                res.append(proved(f"{tag}: one warning naming exactly D"))
        # relaxation == continuous twin
        res += c13.compare_calls(o["calls"], o["twin"], o["cols"], val, f"{tag}: solver arguments == continuous twin", f"C18|relaxation|{sig0}|{method}", payload, allv, pc)
    return res


def _split_names(s):
    """names are separated by ', ' but matrix names contain ',' themselves"""
    out, cur, depth = [], "", 0
    for ch in s:
        if ch == "[":
            depth += 1
        if ch == "]":
            depth -= 1
        if ch == "," and depth == 0:
            out.append(cur.strip())
            cur = ""
        else:
            cur += ch
    if cur.strip():
        out.append(cur.strip())
    return out


def items(tier, seed):
    its = [("twin", 0)]
    cases = []
    for route in ROUTES:
        for domain in ("integer", "binary"):
            for linear in (True, False):
                for method in METHODS:
                    for strict in (True, False):
                        cases.append((route, domain, linear, method, strict))
    for ch in K.chunks(cases, 16):
        its.append(("cases", ch))
    # histories: the solve under test is NOT the first solve of the problem object
    hist = []
    for route in ROUTES:
        for domain in ("integer", "binary"):
            for linear in (True, False):
                for method in ["auto", "linprog", "SLSQP", "trust-constr", "L-BFGS-B"]:
                    for strict in (True, False):
                        other = "highs" if linear else "SLSQP"
                        for pre in ([(method, False)], [(method, True)], [(other, False), (method, False)]):
                            hist.append((route, domain, linear, method, strict, False, tuple(pre)))
                        if method in ("auto", "SLSQP"):
                            for pre in ([("@deepcopy", False)], [(method, False), ("@deepcopy", False)], [("@copy", False)]):
                                hist.append((route, domain, linear, method, strict, False, tuple(pre)))
    for ch in K.chunks(hist, 16):
        its.append(("cases", ch))
    return its


def check(item):
    kind, payload = item
    if kind == "cases":
        out = []
        for c in payload:
            try:
                out += run_case(*c)
            except Exception as e:  # noqa: BLE001
                import traceback
                out.append(harness_error(f"{type(e).__name__}: {e}", item=repr(c), tb=traceback.format_exc()[-1500:]))
        return out
    if kind == "twin":
        rr = run_case("vector", "integer", False, "SLSQP", True, planted=True)
        return [dict(status="conformance", what="twin refuted", points=1) if any(x["status"] == "violation" for x in rr) else harness_error("twin not refuted")]
    raise ValueError(kind)


def replay(payload):
    import types
    import scipy.optimize
    import optyx.solvers.scipy_solver as ss
    from optyx import Problem
    from optyx.core.errors import IntegerVariableError
    route, domain, linear, method, strict = payload["route"], payload["domain"], payload["linear"], payload["method"], payload["strict"]
    val = dict(lb=-0.5, ub=3.5, ly=-1.0, c=0.7, r=1.3, _domain=domain)
    obj, cons, elems = build(route, domain, linear, val)
    p = Problem().minimize(obj)
    for c in cons:
        p.subject_to(c)
    exp = sorted(v.name for v in p.variables if any(v is e for e in elems))
    nonc = sorted(v.name for v in p.variables if v.domain != "continuous")
    if nonc != exp:
        return True, f"declared {domain} through route {route}: problem sees non-continuous {nonc}, expected {exp}"
    for v in p.variables:
        if v.domain == "binary" and (v.lb != 0.0 or v.ub != 1.0):
            return True, f"binary {v.name} has bounds ({v.lb}, {v.ub})"
    calls = []

    def fm(fun, x0, **kw):
        calls.append(("m", kw.get("bounds")))
        return types.SimpleNamespace(x=np.array(x0, dtype=float), fun=fun(np.array(x0, dtype=float)), success=False, message="scripted", nit=0)

    def fl(c, **kw):
        calls.append(("l", kw.get("bounds")))
        return types.SimpleNamespace(x=None, fun=None, success=False, status=4, message="scripted", nit=0)
    om, ol = ss.minimize, scipy.optimize.linprog
    ss.minimize, scipy.optimize.linprog = fm, fl
    exc = None
    try:
        import copy as _copy
        for m_, s_ in payload.get("pre", []):
            if m_ == "@deepcopy":
                p = _copy.deepcopy(p)
                continue
            if m_ == "@copy":
                p = _copy.copy(p)
                continue
            with warnings.catch_warnings():
                warnings.simplefilter("ignore")
                try:
                    p.solve(method=m_, strict=s_)
                except Exception:  # noqa: BLE001
                    pass
        del calls[:]
        with warnings.catch_warnings(record=True) as w:
            warnings.simplefilter("always")
            try:
                p.solve(method=method, strict=strict)
            except Exception as e:  # noqa: BLE001
                exc = e
    finally:
        ss.minimize, scipy.optimize.linprog = om, ol
    if type(exc).__name__ == "NonLinearError":
        return False, "method not applicable"
    if strict:
        if not isinstance(exc, IntegerVariableError):
            return True, f"strict=True did not raise IntegerVariableError (got {exc!r}, {len(calls)} solver calls)"
        if sorted(exc.variable_names or []) != exp or calls:
            return True, f"strict error lists {exc.variable_names} (expected {exp}); solver calls before the error: {len(calls)}"
        return False, "strict behaviour fine"
    uw = [str(x.message) for x in w if x.category is UserWarning and "integer/binary" in str(x.message)]
    if exc is not None or len(uw) != 1:
        return True, f"non-strict solve: exception {exc!r}, {len(uw)} relaxation warnings"
    inside = uw[0][uw[0].index("[") + 1: uw[0].index("] have")]
    if sorted(_split_names(inside)) != exp:
        return True, f"warning names {sorted(_split_names(inside))}, expected {exp}"
    # relaxation == the same model declared continuous: compare what reaches the solver
    relaxed_calls = list(calls)
    obj2, cons2, _ = build(route, domain, linear, val)
    p2 = Problem().minimize(obj2)
    for c in cons2:
        p2.subject_to(c)
    for v_ in p2.variables:
        v_.domain = "continuous"
    del calls[:]
    ss.minimize, scipy.optimize.linprog = fm, fl
    try:
        with warnings.catch_warnings():
            warnings.simplefilter("ignore")
            for m_, s_ in payload.get("pre", []):
                if m_.startswith("@"):
                    continue
                try:
                    p2.solve(method=m_, strict=False)
                except Exception:  # noqa: BLE001
                    pass
            del calls[:]
            try:
                p2.solve(method=method, strict=False)
            except Exception:  # noqa: BLE001
                pass
    finally:
        ss.minimize, scipy.optimize.linprog = om, ol

    def norm(cs):
        return [(k, None if b is None else [tuple(None if t is None else float(t) for t in bb) for bb in b]) for k, b in cs]
    if norm(relaxed_calls) != norm(calls):
        return True, f"relaxed solve passes bounds {norm(relaxed_calls)} to the solver, the same model declared continuous passes {norm(calls)}"
    return False, "no difference reproduced"
