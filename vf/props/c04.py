"""C04 - degree / linearity classification never under-reports.

f is a polynomial of total degree <= d  iff  the (d+1)-th finite difference
  D_h^{d+1} f(x) = sum_k (-1)^{d+1-k} C(d+1,k) f(x + k h)
vanishes for all x and h.  For every recipe, every traversal of the real code
that reports a finite degree d (e.degree, compute_degree, _compute_degree_impl,
_compute_degree_iterative, _check_degree_bounded, is_linear, is_quadratic) is
checked by asking z3 for x, h with D != 0 on the *reference* formula.  unsat =
sound for that tree; sat is replayed numerically.  Only soundness is asserted
(answering None is always allowed)."""
from __future__ import annotations

import math
import random

import numpy as np

from vf.engine.recipes import Ref, free_names, show
from vf.props import common as K
from vf.props.common import harness_error, inconclusive, proved, violation

ID = "C04"
LEVEL = "model_checking"
ITEM_BUDGET_S = {"quick": 300, "thorough": 1200}
QT = {"quick": 10000, "thorough": 30000}
_TIER = "quick"
MAXD = 8

META = dict(
    rule="one case = (recipe, traversal, reported degree d); the query quantifies over the point x, the step h and all symbolic constants; non-trivial = a finite degree was reported and the finite-difference query decided",
    bounds={
        "quick": "depth<=2 scalar family + degree-specific recipes (vector nodes holding non-polynomial elements, negative / fractional vector powers, constant sub-expressions, nested powers, parameters), n=3; reported degree <= 8",
        "thorough": "depth<=3 family, n in 1..5, random recipes",
    },
    outside=["reported degree > 8 (counted as inconclusive)", "trees beyond the bound", "Problem-level linearity caching (C13)"],
    assumptions=["S6: a sat answer may come from the uninterpreted elementary functions, therefore every sat is replayed numerically before it is reported", "S7"],
    exhaustive_within_bounds=True,
)


def worker_init(tier, seed):
    global _TIER
    _TIER = tier


def extra_family():
    X, Y, C = K.X, K.Y, K.C
    sqx = ("bin", "*", X, X)
    v, w = K.V3, K.W3
    sx = ("vexpr", [("un", "sin", X), Y, K.Z])
    sq = ("vexpr", [("bin", "*", X, X), Y, ("num", 1.0)])
    out = [
        ("dot", sx, w), ("dot", w, sx), ("dot", sq, w), ("dot", sq, sq),
        ("dot", ("vbin", "*", v, w), ("vbin", "*", v, w)),
        ("dot", ("vun", "exp", ("vbin", "+", v, ("sc", 0.0))), w),
        ("dot", ("vbin", "/", ("sc", 1.0), v) if False else ("vrbin", "/", ("sc", 1.0), v), w),
        ("lincomb", [1.0, 2.0, 3.0], sx), ("lincomb", [1.0, 2.0, 3.0], sq),
        ("lincomb", [1.0, ("sym", "k"), 3.0], ("vbin", "*", v, w)),
        ("quad", sx, [[1.0, 0.0, 0.0], [0.0, 1.0, 0.0], [0.0, 0.0, 1.0]]),
        ("quad", sq, [[1.0, 0.0, 0.0], [0.0, 1.0, 0.0], [0.0, 0.0, 1.0]]),
        ("quad", ("vbin", "*", v, w), [[1.0, 2.0, 0.0], [0.0, 1.0, 0.0], [0.0, 0.0, 1.0]]),
        ("norm", v, 2), ("norm", v, 1), ("norm", sq, 2),
        ("vsum", sx), ("vsum", sq), ("vsum", ("vbin", "*", v, w)),
    ]
    for k in (0, 1, 2, 3, 4, 0.5, 1.5, 2.5, -1, -2, -0.5):
        out.append(("vsum", ("vpow", v, k)))
        out.append(("bin", "+", ("vsum", ("vpow", v, k)), X))
        out.append(("bin", "**", X, ("const", k)))
        out.append(("bin", "**", ("bin", "+", X, Y), ("const", k)))
        out.append(("bin", "**", ("bin", "*", ("num", 2.0), X), ("const", k)))
    for op in K.R.VEC_UNARY:
        out.append(("vsum", ("vun", op, v)))
    out += [
        ("bin", "**", ("bin", "**", X, ("const", 2)), ("const", 3)),
        ("bin", "**", ("bin", "**", X, ("const", 0)), ("const", 3)),
        ("bin", "**", ("const", 2.0), X),
        ("bin", "**", ("const", 2.0), ("const", 3.0)),
        ("bin", "*", ("bin", "+", ("const", 2.0), ("const", 3.0)), X),
        ("bin", "*", ("bin", "*", ("const", 2.0), X), ("bin", "+", ("const", 1.0), ("const", 1.0))),
        ("bin", "*", ("bin", "+", X, ("num", 1.0)), ("bin", "-", Y, ("num", 1.0))),
        ("bin", "*", X, X), ("bin", "*", X, Y),
        ("bin", "/", X, ("const", 2.0)), ("bin", "/", X, C), ("bin", "/", ("const", 2.0), X),
        ("bin", "/", X, ("bin", "+", ("const", 1.0), ("const", 1.0))),
        ("bin", "/", ("bin", "*", X, Y), ("const", 4.0)),
        ("bin", "-", ("bin", "*", X, X), ("bin", "*", X, X)),
        ("bin", "*", ("const", 0.0), ("un", "sin", X)),
        ("bin", "*", ("un", "sin", ("const", 1.0)), X),
        ("un", "neg", ("bin", "**", X, ("const", 3))),
        ("un", "abs", X), ("un", "sqrt", ("bin", "*", X, X)),
        ("bin", "*", ("param", "p"), X), ("bin", "+", X, ("param", "p")),
        ("bin", "**", X, ("param", "p")),
        ("bin", "**", X, ("const", ("sym", "n"))),
        ("bin", "*", ("vsum", v), ("vsum", w)),
        ("bin", "*", ("num", 2.0), ("dot", v, w)),
        ("bin", "**", ("vsum", v), ("const", 2)),
        ("bin", "**", ("dot", v, v), ("const", 2)),
        ("msum", ("mat", "A", 2, 2)), ("trace", ("mat", "A", 2, 2)),
        ("msum", ("mbin", "*", ("mat", "A", 2, 2), ("mT", ("mat", "A", 2, 2)))),
        ("vsum", ("Mmatvec", ("mat", "A", 2, 2), ("vec", "u", 2))),
        ("velem", ("Mmatvec", ("mat", "A", 2, 2), ("vec", "u", 2)), 0),
        ("vsum", ("matvec", [[1.0, 2.0, 3.0], [0.0, 1.0, ("sym", "a")]], v)),
        ("dot", v, ("matvec", [[1.0, 2.0, 3.0], [0.0, 1.0, 0.0], [1.0, 1.0, 1.0]], v)),
    ]
    # containers whose ELEMENTS have different degrees, the highest one first / last / in the middle (an aggregate must
    # report the maximum, not the degree of the element it happened to look at last)
    A2 = ("mat", "A", 2, 2)
    for ex in ([[2.0, 2.0], [1.0, 1.0]], [[1.0, 1.0], [2.0, 2.0]], [[3.0, 1.0], [1.0, 1.0]], [[1.0, 1.0], [1.0, 3.0]], [[1.0, 0.5], [1.0, 1.0]]):
        out.append(("msum", ("mbin", "**", A2, ("arr2", ex))))
        out.append(("bin", "-", ("bin", "*", ("num", 3.0), ("msum", ("mbin", "**", A2, ("arr2", ex)))), ("num", 1.0)))
    for rows in ([[X, 1.0], [1.0, 1.0]], [[1.0, 1.0], [1.0, X]], [[("un", "sin", X), 1.0], [1.0, 1.0]], [[1.0, ("bin", "*", X, Y)], [2.0, 1.0]]):
        out.append(("msum", ("mbin", "*", A2, ("elst2", rows))))
        out.append(("msum", ("mbin", "+", ("mbin", "*", A2, ("elst2", rows)), ("sc", 1.0))))
    for ex in ([2.0, 1.0, 1.0], [1.0, 2.0, 1.0], [1.0, 1.0, 2.0], [1.0, 1.0, 0.5]):
        out.append(("vsum", ("vbin", "**", ("vbin", "+", v, ("sc", 0.0)), ("arr", ex))))
    for els in ([sqx, Y], [Y, sqx], [("un", "sin", X), Y], [Y, ("un", "sin", X)], [Y, sqx, X]):
        out.append(("vsum", ("vexpr", els)))
        out.append(("norm", ("vexpr", els), 1))
        out.append(("lincomb", [1.0, 2.0, 3.0][:len(els)], ("vexpr", els)))
        out.append(("dot", ("vexpr", els), ("vexpr", [("num", 1.0)] * 0 + [X] * len(els))))
    return out


def items(tier, seed):
    rs = extra_family() + K.scalar_family(tier)
    if tier == "thorough":
        for n in (1, 2, 4, 5):
            rs += K.vec_nodes(n, full=(n >= 2))
        rs += K.random_recipes(seed, 600, 3)
    seen, uniq = set(), []
    for r in rs:
        k = repr(r)
        if k not in seen:
            seen.add(k)
            uniq.append(r)
    return [("twin", 0)] + [("rs", ch) for ch in K.chunks(uniq, 8)]


def traversals(e):
    """{name: claimed degree bound or None}  (booleans become bounds)"""
    import optyx.analysis as A
    out = {}

    def rec(name, fn, conv=lambda d: d):
        try:
            out[name] = conv(fn())
        except RecursionError:
            out[name] = None
        except Exception as ex:  # noqa: BLE001
            out[name] = ex

    rec("compute_degree", lambda: A.compute_degree(e))
    rec("_compute_degree_impl", lambda: A._compute_degree_impl(e))
    rec("_compute_degree_iterative", lambda: A._compute_degree_iterative(e))
    rec("e.degree", lambda: e.degree)
    rec("e.degree(cached)", lambda: e.degree)
    rec("is_linear", lambda: A.is_linear(e), lambda b: 1 if b else None)
    rec("e.is_linear()", lambda: e.is_linear(), lambda b: 1 if b else None)
    rec("is_quadratic", lambda: A.is_quadratic(e), lambda b: 2 if b else None)
    for k in (0, 1, 2, 3):
        rec(f"_check_degree_bounded({k})", lambda k=k: A._check_degree_bounded(e, k), lambda b, k=k: k if b else None)
    return out


def subexpressions(e):
    """every Expression node below e (post-order), through scalar, vector and matrix containers"""
    from optyx.core.expressions import Expression
    out, seen = [], set()

    def walk(o):
        if id(o) in seen:
            return
        seen.add(id(o))
        for attr in ("left", "right", "operand", "vector", "matrix", "expression"):
            if hasattr(o, attr):
                walk(getattr(o, attr))
        ex = getattr(o, "_expressions", None)
        if ex is not None:
            for row in ex:
                for x in (row if isinstance(row, list) else [row]):
                    walk(x)
        if isinstance(o, Expression):
            out.append(o)
    walk(e)
    return out


def warm_traversals(e):
    """the same questions asked after every sub-expression was classified on its
    own (per-node and process-wide degree caches warm)"""
    import optyx.analysis as A
    for sub in subexpressions(e)[:-1]:
        try:
            sub.degree
            A.is_linear(sub)
        except Exception:  # noqa: BLE001
            pass
    out = {}
    for name, fn, conv in (("compute_degree[warm]", lambda: A.compute_degree(e), lambda d: d), ("_compute_degree_impl[warm]", lambda: A._compute_degree_impl(e), lambda d: d),
                           ("e.degree[warm]", lambda: e.degree, lambda d: d), ("is_linear[warm]", lambda: A.is_linear(e), lambda b: 1 if b else None),
                           ("is_quadratic[warm]", lambda: A.is_quadratic(e), lambda b: 2 if b else None),
                           ("_compute_degree_iterative[warm]", lambda: A._compute_degree_iterative(e), lambda d: d)):
        try:
            out[name] = conv(fn())
        except RecursionError:
            out[name] = None
        except Exception as ex:  # noqa: BLE001
            out[name] = ex
    return out


def touched_traversals(e):
    """the same questions on a fresh tree after read-only queries (variable sets, repr, hash,
    a Problem listing its variables) were made on every node and container"""
    import optyx.analysis as A
    K.touch(e)
    out = {}
    for name, fn, conv in (("compute_degree[touched]", lambda: A.compute_degree(e), lambda d: d), ("e.degree[touched]", lambda: e.degree, lambda d: d),
                           ("is_linear[touched]", lambda: A.is_linear(e), lambda b: 1 if b else None), ("is_quadratic[touched]", lambda: A.is_quadratic(e), lambda b: 2 if b else None),
                           ("_compute_degree_iterative[touched]", lambda: A._compute_degree_iterative(e), lambda d: d),
                           ("_compute_degree_impl[touched]", lambda: A._compute_degree_impl(e), lambda d: d)):
        try:
            out[name] = conv(fn())
        except RecursionError:
            out[name] = None
        except Exception as ex:  # noqa: BLE001
            out[name] = ex
    return out


def updated_traversals(b, e, val, tag="[upd]"):
    """every question asked once (caches warm), the parameters updated to p', the questions asked again"""
    import optyx.analysis as A
    qs = (("compute_degree", lambda: A.compute_degree(e), lambda d: d), ("e.degree", lambda: e.degree, lambda d: d),
          ("is_linear", lambda: A.is_linear(e), lambda b_: 1 if b_ else None), ("e.is_linear()", lambda: e.is_linear(), lambda b_: 1 if b_ else None),
          ("is_quadratic", lambda: A.is_quadratic(e), lambda b_: 2 if b_ else None),
          ("_compute_degree_iterative", lambda: A._compute_degree_iterative(e), lambda d: d), ("_compute_degree_impl", lambda: A._compute_degree_impl(e), lambda d: d))
    for _n, fn, _c in qs:
        try:
            fn()
        except Exception:  # noqa: BLE001
            pass
    for n, p_ in b.params.items():
        p_.set(val[n + "'"])
    out = {}
    for name, fn, conv in qs:
        try:
            out[name + tag] = conv(fn())
        except RecursionError:
            out[name + tag] = None
        except Exception as ex:  # noqa: BLE001
            out[name + tag] = ex
    return out


UPD_INITIAL = (0.0, 1.0, 2.0, 3.0)   # concrete initial parameter values (the code's own tests on exponents / coefficients)


def fd_terms(recipe, names, val, hval, d):
    """reference values f(x + k h), k = 0..d+1, and the domain conditions"""
    vals = []
    dom = []
    for k in range(d + 2):
        v = dict(val)
        for n in names["vars"]:
            v[n] = val[n] + k * hval[n] if k else val[n]
        ref = Ref(v, diff=0)
        vals.append(ref.S(recipe))
        dom += ref.dom
    return vals, dom


def fd(vals, d):
    s = 0.0
    for k, fv in enumerate(vals):
        c = math.comb(d + 1, k) * (-1) ** (d + 1 - k)
        s = s + c * fv
    return s


def check_recipe(recipe, planted=None):
    from vf.engine import smt
    from vf.engine.sym import SReal
    res = []
    names = free_names(recipe)
    allv = names["vars"] + names["syms"] + names["params"] + [n + "'" for n in names["params"]]
    val = K.sym_val(allv)
    val1 = {**val, **{n: val[n + "'"] for n in names["params"]}}
    hval = {n: SReal.var("h_" + n) for n in names["vars"]}
    hnames = ["h_" + n for n in names["vars"]]
    shp = K.shape(recipe, 3)
    def both():
        t = traversals(K.build_recipe(recipe, val)[1])
        t.update(warm_traversals(K.build_recipe(recipe, val)[1]))   # a fresh tree, inner nodes queried first
        t.update(touched_traversals(K.build_recipe(recipe, val)[1]))
        if names["params"]:
            t.update(updated_traversals(*K.build_recipe(recipe, val), val))
            # the same with CONCRETE initial parameter values (a symbolic value is not a numbers.Number for the code)
            for p0 in UPD_INITIAL:
                vc = {**val, **{n: p0 for n in names["params"]}}
                t.update(updated_traversals(*K.build_recipe(recipe, vc), val, tag=f"[upd from p={p0}]"))
        return t

    for dec, labels, pc, trav in K.explore(both, max_paths=50):
        done = {}
        for name, d in trav.items():
            if planted is not None and name == "compute_degree":
                d = planted
            if isinstance(d, Exception):
                res.append(harness_error(f"{name} raised {type(d).__name__}: {d}", item=show(recipe)))
                continue
            if d is None:
                continue
            d = int(d)
            if d > MAXD:
                res.append(inconclusive(f"reported degree {d} > {MAXD}: {show(recipe)[:80]}"))
                continue
            dd = max(d, -1)
            upd = "[upd" in name
            if (dd, upd) in done:
                r0 = done[(dd, upd)]
                if r0["status"] == "violation":
                    r = dict(r0)
                    r["what"] = f"{name} reports degree {d} for {show(recipe)[:100]} (not a polynomial of degree <= {d})"
                    r["sig"] = f"C04|{name.split('(')[0]}|d={d}|{shp}"
                    r["replay"] = dict(r0["replay"], obs=name, d=d)
                    res.append(r)
                elif r0["status"] == "proved":
                    res.append(dict(r0, what=f"{name}: degree {d} sound for {show(recipe)[:80]}"))
                else:
                    res.append(dict(r0, what=f"unknown: {name} reports degree {d} for {show(recipe)[:80]}"))
                continue
            vals, dom = fd_terms(recipe, names, val1 if upd else val, hval, dd)
            D = fd(vals, dd)
            what = f"{name} reports degree {d} for {show(recipe)[:100]}"
            r = K.decide(smt.eq(D, 0.0), pc, dom, what, f"C04|{name.split('(')[0]}|d={d}|{shp}",
                         dict(kind="fd", obs=name, d=d, recipe=K.enc(recipe)), allv + hnames, QT[_TIER], weak_sat=True)
            if r["status"] == "violation":
                r["what"] = what + f" (not a polynomial of degree <= {d})"
            done[(dd, upd)] = r
            res.append(r)
    return res


def check(item):
    kind, payload = item
    if kind == "rs":
        return K.safe_items(check_recipe, payload, show)
    if kind == "twin":
        out = []
        for r, d in [(("bin", "*", ("bin", "*", K.X, K.X), K.X), 2), (("dot", K.V3, K.W3), 1), (("bin", "+", K.X, ("num", 1.0)), 0)]:
            rr = check_recipe(r, planted=d)
            if not any(x["status"] == "violation" and "compute_degree" in x["sig"] for x in rr):
                out.append(harness_error(f"reachability twin not refuted: {r} planted degree {d}"))
            else:
                out.append(dict(status="conformance", what=f"twin refuted {r}", points=1))
        return out
    raise ValueError(kind)


def replay(payload):
    recipe = K.dec(payload["recipe"])
    name, d = payload["obs"], int(payload["d"])
    names = free_names(recipe)
    allv = names["vars"] + names["syms"] + names["params"] + [n + "'" for n in names["params"]]
    upd = "[upd" in name
    vals0 = payload.get("values", {})
    base0 = {k: float(__import__("fractions").Fraction(v)) for k, v in vals0.items()}
    # the real code must still make the claim (for the parameter values of the counterexample)
    val = {n: (base0.get(n, 0.5) if n.rstrip("'") in names["params"] else 0.5) for n in allv}
    trav = traversals(K.build_recipe(recipe, val)[1])
    trav.update(warm_traversals(K.build_recipe(recipe, val)[1]))
    trav.update(touched_traversals(K.build_recipe(recipe, val)[1]))
    if names["params"]:
        trav.update(updated_traversals(*K.build_recipe(recipe, val), val))
        for p0 in UPD_INITIAL:
            vc = {**val, **{n: p0 for n in names["params"]}}
            trav.update(updated_traversals(*K.build_recipe(recipe, vc), val, tag=f"[upd from p={p0}]"))
    got = trav.get(name)
    if isinstance(got, Exception) or got is None or int(got) != d:
        return False, f"{name} now reports {got!r}, not {d}"
    dd = max(d, -1)
    rng = random.Random(99)
    vals0 = payload.get("values", {})
    pts = []
    if vals0:
        base = {k: float(__import__("fractions").Fraction(v)) for k, v in vals0.items()}
        pts.append(({n: base.get(n, 0.0) for n in allv}, {n: base.get("h_" + n, 0.0) for n in names["vars"]}))
    for _ in range(30):
        pts.append(({n: (val[n] if n.rstrip("'") in names["params"] else rng.uniform(0.4, 1.6)) for n in allv}, {n: rng.uniform(0.05, 0.3) for n in names["vars"]}))
    for x, h in pts:
        if upd:
            x = {**x, **{n: x[n + "'"] for n in names["params"]}}
        try:
            with np.errstate(all="ignore"):
                vals, dom = fd_terms(recipe, names, x, h, dd)
                if not K.in_dom(dom):
                    continue
                fv = [float(v) for v in vals]
            if not all(np.isfinite(fv)):
                continue
            D = sum(math.comb(dd + 1, k) * (-1) ** (dd + 1 - k) * fv[k] for k in range(dd + 2))
            scale = sum(math.comb(dd + 1, k) * abs(fv[k]) for k in range(dd + 2)) + 1e-12
            if abs(D) > 1e-7 * scale + 1e-10:
                return True, f"{name} reports degree {d} but the order-{dd + 1} finite difference at x={x}, h={h} is {D!r} (scale {scale:.3g})"
        except Exception:  # noqa: BLE001
            continue
    return False, "finite difference vanished numerically at all tried points"
