"""C09 - nonlinear solves are a transparent wrapper over SciPy (the part optyx
controls).

The Fortran/C optimisers cannot be encoded; scipy.optimize.minimize is replaced
by the stub S4 which records what it is given.  For every model x method in
{auto, SLSQP, trust-constr, L-BFGS-B} and SYMBOLIC data z3 proves, for all x:
  fun(x) == +/- objective(x)          (negated for maximise)
  jac(x) == grad fun (x)              (fun itself is differentiated with dual
                                       numbers run through the callable)
  hess(x) == hess fun (x)             when a Hessian is passed (nested duals)
  per constraint dict: fun(x) >= 0 (== 0) exactly on the user's relation, jac == grad fun
  bounds == declared bounds, passed iff the method supports them
  x0 finite and inside [lb, ub] whenever lb <= ub
  method passed is the requested one (auto: one of the three, per the documented rule)
and that the reply is mapped back: success and user-feasible => OPTIMAL.
Convergence of the optimisers themselves is outside the claim."""
from __future__ import annotations

import numpy as np
import z3

from vf.engine.dual import Dual
from vf.engine.recipes import Ref
from vf.props import common as K
from vf.props import lpmodels as LM
from vf.props import solving as SV
from vf.props.common import harness_error, inconclusive, proved, violation

ID = "C09"
LEVEL = "model_checking"
ITEM_BUDGET_S = {"quick": 500, "thorough": 1800}
QT = {"quick": 15000, "thorough": 30000}
_TIER = "quick"
NLM = ["auto", "SLSQP", "trust-constr", "L-BFGS-B"]
HESS = {"trust-constr"}
BOUNDS_OK = {"L-BFGS-B", "SLSQP", "trust-constr"}

META = dict(
    rule="one case = (model, method, obligation, path of the argument-building code) + (model, method, reply path) for the mapping obligation",
    bounds={
        "quick": "33 models x 4 methods (+ 3 edit histories x 2 methods on every other model); all data (coefficients, rhs, bounds, parameter values) symbolic; x symbolic; path budget 1200 for the reply mapping",
        "thorough": "adds n=3 / symmetric-matrix models, path budget 10000",
    },
    outside=["numerical trajectory / convergence of SLSQP, trust-constr, L-BFGS-B (FFI)", "user-supplied x0/tol/maxiter", "rounding (S7)"],
    assumptions=["S4", "S1", "S2", "S3", "S6", "S7"],
    exhaustive_within_bounds=True,
)


def worker_init(tier, seed):
    global _TIER
    _TIER = tier


def items(tier, seed):
    its = [("twin", 0)]
    for m in LM.solve_models(tier):
        for meth in NLM:
            its.append(("args", (m, meth)))
            its.append(("map", (m, meth)))
    # the solve under test as the SECOND solve of a problem object edited in between
    for im, m in enumerate(LM.solve_models(tier)):
        if not m["cons"] or (tier == "quick" and im % 2 and "late" not in m["tag"]):
            continue
        for h in ("narrow-first", "add-last", "reobj"):
            for meth in (["SLSQP", "trust-constr"] if tier == "quick" else NLM):
                its.append(("args", (m, meth, False, h)))
    # the solve under test follows a solve at OTHER parameter values (parameters updated in between, nothing else edited)
    for m in LM.solve_models(tier):
        if LM.model_names(m)["params"]:
            for meth in NLM:
                its.append(("args", (m, meth, False, "param-update")))
    its.sort(key=lambda it: -(len(it[1][0]["cons"]) * 10 + (5 if it[1][1] in ("SLSQP", "auto") else 0)) if it[0] == "map" else -1000 if it[0] == "twin" else 0)
    return its


def _xvec(cols, xv):
    x = np.empty(len(cols), dtype=object)
    for i, n in enumerate(cols):
        x[i] = xv[n]
    return x


def _dual_x(cols, xv, wrt, wrt2=None):
    dv = K.dual_val({n: xv[n] for n in cols}, wrt, wrt2)
    return _xvec(cols, dv)


def expected_auto(model):
    """documented rule: unconstrained -> L-BFGS-B; else SLSQP or trust-constr"""
    if not model["cons"]:
        return {"L-BFGS-B"}
    return {"SLSQP", "trust-constr"}


def args_obligations(model, method, planted=False, hist=None):
    from vf.engine import smt
    from vf.engine.sym import SReal, SymbolicConcretisation
    res = []
    names = LM.model_names(model)
    allv = names["vars"] + names["syms"] + names["params"]
    if hist == "param-update":
        allv = allv + [n + "@old" for n in names["params"]]
    val = K.sym_val(allv)
    tag = f"{model['tag']}/{method}" + (f"/after {hist}" if hist else "")
    form = model["tag"] + (f"|{hist}" if hist else "")
    observe = (lambda: SV.solve_observe(model, val, method, mode="fixed")) if hist is None else (lambda: SV.solve_observe_hist(model, val, method, hist, mode="fixed"))
    for dec, labels, pc, o in K.explore(observe, max_paths=600):
        payload = dict(kind="args", model=K.enc(model), method=method, hist=hist)
        if o.exc is not None:
            if isinstance(o.exc, SymbolicConcretisation):
                res.append(harness_error(f"concretisation: {o.exc}", item=tag))
            else:
                res.append(violation(f"C09|solve-raises:{type(o.exc).__name__}|{form}", f"{tag}: solve raises {o.exc}", dict(payload, kind="raises")))
            continue
        if not o.mcalls:
            if method == "auto" and o.lcalls:
                res.append(dict(status="conformance", what=f"auto routed to LP: {tag}", points=0))
                continue
            res.append(violation(f"C09|no-minimize-call|{form}", f"{tag}: minimize was not called", dict(payload, kind="raises")))
            continue
        res += SV.minimize_call_obligations(o.mcalls[0], model, [v.name for v in o.problem.variables], val, pc, tag, form, method,
                                            "C09", QT[_TIER], allv, payload, planted=planted)
    return res


def K_bool(b):
    from vf.engine.sym import sbool_term
    return sbool_term(b)


def map_obligations(model, method):
    """reply mapping: first reply success and user-feasible => OPTIMAL"""
    from vf.engine import smt
    res = []
    names = LM.model_names(model)
    allv = names["vars"] + names["syms"] + names["params"]
    val = K.sym_val(allv)
    tag = f"{model['tag']}/{method}"
    budget = 1200 if _TIER == "quick" else 10000
    allmodel = allv + [f"m{k}_x{i}" for k in (1, 2, 3) for i in range(12)]
    for dec, labels, pc, o in K.explore(lambda: SV.solve_observe(model, val, method), max_paths=budget):
        if o.exc is not None or not o.mcalls or o.lcalls:
            continue
        succ = [l for l in labels if l[0] == "c" and l[1].endswith(".success")]
        if len(succ) != 1 or succ[0][2] != 0:
            continue  # only single-call successful replies
        sol = o.solution
        if sol.status.name == "OPTIMAL":
            res.append(proved(f"{tag}: success -> OPTIMAL"))
            continue
        # not OPTIMAL although SciPy converged: must be because a user constraint is violated
        values = SV.complete_values(model, val, sol.values)
        sat_all = []
        dom = []
        for sense, v, d in SV.user_constraint_values(model, values):
            sat_all.append(K_bool(v <= 0) if sense == "<=" else K_bool(v == 0))
            dom += d
        claim = z3.Not(z3.And(sat_all)) if sat_all else z3.BoolVal(False)
        res.append(K.decide(claim, pc, dom, f"{tag}: converged reply mapped to {sol.status.name} only if infeasible", f"C09|map|success->{sol.status.name}",
                            dict(kind="map", model=K.enc(model), method=method, labels=[list(l) for l in labels]), allmodel, QT[_TIER]))
    return res


def check(item):
    kind, payload = item
    try:
        if kind == "args":
            return args_obligations(*payload)
        if kind == "map":
            return map_obligations(*payload)
        if kind == "twin":
            ms = {m["tag"]: m for m in LM.solve_models("quick")}
            rr = args_obligations(ms["nlp1-ge"], "trust-constr", planted=True)
            nv = sum(x["status"] == "violation" for x in rr)
            return [dict(status="conformance", what="twin refuted", points=1) if nv >= 4 else harness_error(f"reachability twin not refuted ({nv})")]
    except Exception as e:  # noqa: BLE001
        import traceback
        return [harness_error(f"{type(e).__name__}: {e}", item=repr(payload)[:200], tb=traceback.format_exc()[-1500:])]
    raise ValueError(kind)


def replay(payload):
    import random
    import types
    import warnings
    from fractions import Fraction
    import optyx.solvers.scipy_solver as ss
    model = K.dec(payload["model"])
    method = payload["method"]
    names = LM.model_names(model)
    allv = names["vars"] + names["syms"] + names["params"]
    if payload.get("hist") == "param-update":
        allv = allv + [n + "@old" for n in names["params"]]
    vals = {k: float(Fraction(v)) for k, v in payload.get("values", {}).items()}
    rng = random.Random(21)
    for attempt in range(8):
        val = {n: vals.get(n, 0.0) if attempt == 0 else rng.uniform(0.3, 1.7) for n in allv}
        for k in val:
            if attempt and k.startswith("l") and k in names["syms"]:
                val[k] = -abs(val[k])
        captured = []

        def fake_min(fun, x0, **kw):
            captured.append(dict(fun=fun, x0=x0, **kw))
            x = np.array(x0, dtype=float)
            succ = False
            if payload["kind"] == "map":
                succ = True
                x = np.array([vals.get(f"m1_x{i}", 0.0) for i in range(len(x0))])
            return types.SimpleNamespace(x=x, fun=fun(x), success=succ, message="scripted", nit=1)

        old = ss.minimize
        ss.minimize = fake_min
        try:
            if payload.get("hist"):
                p, b, finish = LM.build_model_staged(model, val, payload["hist"])
                with warnings.catch_warnings():
                    warnings.simplefilter("ignore")
                    try:
                        p.solve(method=method)
                    except Exception:  # noqa: BLE001
                        pass
                finish()
                del captured[:]
            else:
                p, b = LM.build_model(model, val)
            with warnings.catch_warnings():
                warnings.simplefilter("ignore")
                try:
                    sol = p.solve(method=method)
                except Exception as e:  # noqa: BLE001
                    if payload["kind"] == "raises":
                        return True, f"solve raises {e!r}"
                    continue
        finally:
            ss.minimize = old
        if not captured:
            continue
        call = captured[0]
        cols = [v.name for v in p.variables]
        if payload["kind"] == "map":
            feas = all(c.violation(sol.values) <= 0 for c in p.constraints)
            if sol.status.name != "OPTIMAL" and feas:
                return True, f"converged, feasible reply mapped to {sol.status.name}"
            return False, "mapping fine on replay"
        if payload["kind"] == "shape":
            msg = SV.shapes_wrong(call, len(cols))
            if msg:
                return True, msg
            continue
        if payload["kind"] == "callable-raises":
            msg = SV.callables_raise(call, len(cols))
            if msg:
                return True, msg
            continue
        structural_bounds = payload["kind"] == "raises" and "bound" in payload.get("what", "")
        if payload["kind"] == "raises" and not structural_bounds:
            return True, "structural difference (see what)"
        s = 1.0 if model["sense"] == "min" else -1.0
        for _ in range(0 if structural_bounds else 10):
            pt = dict(val)
            for n in names["vars"]:
                pt[n] = vals.get(n, 0.5) if (_ == 0 and attempt == 0) else rng.uniform(0.3, 1.7)
            x = np.array([pt[n] for n in cols])
            with np.errstate(all="ignore"):
                oref, dom = SV.ref_objective(model, pt)
                if not K.in_dom(dom):
                    continue
                fx = float(call["fun"](x))
                if not K.close(fx, s * float(oref), 1e-7, 1e-9):
                    return True, f"fun({x.tolist()}) = {fx} but objective = {s * float(oref)}"
                eps = 1e-6
                g = np.asarray(call["jac"](x), dtype=float).reshape(-1)
                for j in range(len(cols)):
                    xp, xm = x.copy(), x.copy()
                    xp[j] += eps
                    xm[j] -= eps
                    fd = (float(call["fun"](xp)) - float(call["fun"](xm))) / (2 * eps)
                    if abs(fd - g[j]) > 1e-4 * (1 + abs(fd)):
                        return True, f"jac[{j}] = {g[j]} but finite difference of fun = {fd} at {x.tolist()}"
                if call.get("hess") is not None:
                    H = np.asarray(call["hess"](x), dtype=float)
                    for i in range(len(cols)):
                        xp, xm = x.copy(), x.copy()
                        xp[i] += eps
                        xm[i] -= eps
                        col = (np.asarray(call["jac"](xp), dtype=float).reshape(-1) - np.asarray(call["jac"](xm), dtype=float).reshape(-1)) / (2 * eps)
                        if np.max(np.abs(col - H[i])) > 1e-3 * (1 + np.max(np.abs(col))):
                            return True, f"hess row {i} = {H[i].tolist()} but finite difference of jac = {col.tolist()}"
                for k, ((sense, v, d), cd) in enumerate(zip(SV.user_constraint_values(model, pt), call.get("constraints") or [])):
                    cf = float(cd["fun"](x))
                    v = float(v)
                    if abs(v) > 1e-9 and ((cf >= 0) != (v <= 0) if sense == "<=" else (abs(cf) < 1e-12) != (abs(v) < 1e-12)):
                        return True, f"constraint {k}: fun={cf} but user's relation value={v}"
                    g = np.asarray(cd["jac"](x), dtype=float).reshape(-1)
                    for j in range(len(cols)):
                        xp, xm = x.copy(), x.copy()
                        xp[j] += eps
                        xm[j] -= eps
                        fd = (float(cd["fun"](xp)) - float(cd["fun"](xm))) / (2 * eps)
                        if abs(fd - g[j]) > 1e-4 * (1 + abs(fd)):
                            return True, f"constraint {k} jac[{j}] = {g[j]} but finite difference = {fd}"
        if call.get("bounds") is not None:
            for i, n in enumerate(cols):
                lb, ub = LM.declared_bounds(model, n, val)
                glb, gub = call["bounds"][i]
                if (lb is None) != (glb is None or glb == -np.inf) or (lb is not None and abs(glb - lb) > 1e-12):
                    return True, f"lower bound of {n}: passed {glb}, declared {lb}"
                if (ub is None) != (gub is None or gub == np.inf) or (ub is not None and abs(gub - ub) > 1e-12):
                    return True, f"upper bound of {n}: passed {gub}, declared {ub}"
        for i, n in enumerate(cols):
            lb, ub = LM.declared_bounds(model, n, val)
            if lb is not None and ub is not None and lb > ub:
                continue
            if (lb is not None and call["x0"][i] < lb - 1e-12) or (ub is not None and call["x0"][i] > ub + 1e-12):
                return True, f"x0[{i}]={call['x0'][i]} outside [{lb}, {ub}]"
    return False, "no difference reproduced"
