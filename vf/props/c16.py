"""C16 - a problem's variables are exactly those it mentions, in deterministic
natural order, with the declared bounds.

Mostly configuration-valued: problem recipes mix vector shortcuts and scalar
terms in objective and constraints (every arm of the single-vector shortcut,
taken and just missed; slices incl. negative steps; matrix views; symmetric
matrices; parameters; indices crossing 9->10 and 99->100), enumerated
exhaustively within the bound.  Oracles, all independent of optyx:
  set    the names that flow into the reference interpreter's result (a
         name-set valued run of the reference formula), plus - for any variable
         optyx does not list - a solver query that the model's value really
         depends on it (sat = it matters);
  order  an independent natural sort;
  bounds get_bounds()[i] == declared (SYMBOLIC) bounds of variables[i] (z3).
The hash-seed dimension of 'deterministic' is checked by re-running the
variable listing in subprocesses under different PYTHONHASHSEEDs."""
from __future__ import annotations

import itertools
import re

import numpy as np

from vf.engine.recipes import Ref, free_names, kind_of
from vf.props import common as K
from vf.props import lpmodels as LM
from vf.props.common import harness_error, inconclusive, proved, violation

ID = "C16"
LEVEL = "model_checking"
ITEM_BUDGET_S = {"quick": 300, "thorough": 900}
QT = {"quick": 10000, "thorough": 30000}
_TIER = "quick"

META = dict(
    rule="one case = (problem recipe, obligation in {set, order, uniqueness, bounds, n_variables}); non-trivial = problem recipe whose obligations were all evaluated",
    bounds={
        "quick": "objective forms (every shortcut arm) x constraint forms (none / same vector / slice / scalar / other vector / matrix views), vector size 12 (indices 9->10), one size-101 family (99->100), 3x3 matrices incl. symmetric; 4 hash seeds",
        "thorough": "all objective x constraint pairs with two constraints, vector sizes 12 and 101",
    },
    outside=["names that are not produced by the API's own naming scheme except the listed tie cases", "rounding (S7)"],
    assumptions=["the ordering / set part has no real-valued inputs: the explorer's contribution is the exhaustive case split; z3 decides the bound equalities and the dependence queries"],
    exhaustive_within_bounds=True,
)


def worker_init(tier, seed):
    global _TIER
    _TIER = tier


# ---- independent oracles ---------------------------------------------------
def natural_key(name):
    parts = re.split(r"(\d+)", name)
    return tuple((0, int(p)) if i % 2 else (1, p) for i, p in enumerate(parts))


class NameSet:
    """value domain of the 'which names flow into the result' run"""
    __hash__ = None

    def __init__(self, names=()):
        self.n = frozenset(names)

    def _u(self, o):
        return NameSet(self.n | o.n) if isinstance(o, NameSet) else self

    __add__ = __radd__ = __sub__ = __rsub__ = __mul__ = __rmul__ = __truediv__ = __rtruediv__ = __pow__ = __rpow__ = _u

    def __neg__(self):
        return self

    __abs__ = __pos__ = __neg__

    def __float__(self):
        return 2.0

    def __ne__(self, o):
        return True

    def __eq__(self, o):
        return False

    __lt__ = __le__ = lambda self, o: True
    __gt__ = __ge__ = lambda self, o: True

    def __getattr__(self, name):
        if name in ("sin", "cos", "tan", "exp", "log", "log2", "log10", "sqrt", "tanh", "sinh", "cosh", "arcsin", "arccos", "arctan", "arcsinh", "arccosh", "arctanh"):
            return lambda: self
        raise AttributeError(name)


def mentioned(model):
    names = LM.model_names(model)
    val = {n: NameSet([n]) for n in names["vars"]}
    for n in names["syms"] + names["params"]:
        val[n] = NameSet()
    out = set()
    ref = Ref(val, 0)
    for r in [model["obj"]] + [c[1] for c in model["cons"]] + [c[2] for c in model["cons"]]:
        v = ref.S(r)
        if isinstance(v, NameSet):
            out |= v.n
    return out


# ---- problem recipes --------------------------------------------------------
def S(n):
    return ("sym", n)


def objective_forms(n):
    v, w = ("vec", "v", n), ("vec", "w", 3)
    M, Sm = ("mat", "A", 3, 3), ("mat", "S", 3, 3, True)
    X = ("var", "x")
    return [
        ("sum(v)", ("vsum", v)), ("c@v", ("lincomb", [1.0] * n, v)), ("sum(v^2)", ("vsum", ("vpow", v, 2))), ("sum(sin v)", ("vsum", ("vun", "sin", v))),
        ("v.v", ("dot", v, v)), ("sum(v)+c", ("bin", "+", ("vsum", v), ("const", 1.0))), ("p*sum(v)", ("bin", "*", ("param", "p"), ("vsum", v))),
        ("-sum(v^2)+sum(v)", ("bin", "+", ("un", "neg", ("vsum", ("vpow", v, 2))), ("vsum", v))),
        ("exp(sum v)", ("un", "exp", ("vsum", v))),
        ("sum(v+1)", ("vsum", ("vbin", "+", v, ("sc", 1.0)))), ("c@(2v)", ("lincomb", [1.0] * n, ("vbin", "*", v, ("sc", 2.0)))),
        ("norm2(v)", ("norm", v, 2)), ("norm1(v)", ("norm", v, 1)), ("v.w3", ("dot", ("slice", v, 0, 3, None), w)),
        ("sum(v)+x", ("bin", "+", ("vsum", v), X)), ("x", X), ("const", ("const", 3.0)), ("p", ("param", "p")),
        ("sum(v[::-1])", ("vsum", ("slice", v, None, None, -1))), ("sum(v[2:9:3])", ("vsum", ("slice", v, 2, 9, 3))), ("sum(v[-3:])", ("vsum", ("slice", v, -3, None, None))),
        ("c@v[::-2]", ("lincomb", [1.0] * len(range(n)[::-2]), ("slice", v, None, None, -2))),
        ("sum(v)+sum(v[0:2])", ("bin", "+", ("vsum", v), ("vsum", ("slice", v, 0, 2, None)))),
        ("sum(v[0:5])+sum(v[3:8])", ("bin", "+", ("vsum", ("slice", v, 0, 5, None)), ("vsum", ("slice", v, 3, 8, None)))),
        ("v[10]+v[9]+v[2]", ("bin", "+", ("bin", "+", ("velem", v, 10), ("velem", v, 9)), ("velem", v, 2))),
        ("sum(A)", ("msum", M)), ("sum(A[1,:])", ("vsum", ("mrow", M, 1))), ("sum(A[:,2][::-1])", ("vsum", ("slice", ("mcol", M, 2), None, None, -1))),
        ("sum(A.T[0,:])", ("vsum", ("mrow", ("mT", M), 0))), ("trace(A)", ("trace", M)), ("sum(diag A)", ("vsum", ("mdiag", M))),
        ("sum(S)", ("msum", Sm)), ("sum(S[2,:])", ("vsum", ("mrow", Sm, 2))), ("fro(S)", ("fro", Sm)), ("sum(A*A.T)", ("msum", ("mbin", "*", M, ("mT", M)))),
        ("quad(v3)", ("quad", ("slice", v, 0, 3, None), [[1.0, 0.0, 0.0], [0.0, 1.0, 0.0], [0.0, 0.0, 1.0]])),
        ("x-x+sum(v)*0", ("bin", "+", ("bin", "-", X, X), ("bin", "*", ("vsum", v), ("num", 0.0)))),
        # views whose NAME collides with another view of different content
        ("sum(v[0:6:2])", ("vsum", ("slice", v, 0, 6, 2))), ("sum(v[0:6])", ("vsum", ("slice", v, 0, 6, None))),
        ("sum(A[0,0:2])", ("vsum", ("mrowpart", M, 0, (0, 2, None)))), ("sum(A[1:3,1])", ("vsum", ("mcolpart", M, 1, (1, 3, None)))),
        ("c@v[3:9:5]", ("lincomb", [1.0, 2.0], ("slice", v, 3, 9, 5))),
        # variables that occur ONLY in an exponent / a denominator / under a function
        ("sum(v)+2**y", ("bin", "+", ("vsum", v), ("bin", "**", ("num", 2.0), ("var", "y")))), ("x**y", ("bin", "**", X, ("var", "y"))),
        ("1/y+exp(z)", ("bin", "+", ("bin", "/", ("num", 1.0), ("var", "y")), ("un", "exp", ("var", "z")))),
        ("(sum(v))**x", ("bin", "**", ("vsum", ("slice", v, 0, 2, None)), X)),
        # sub-matrix views (symmetric: shared entries; plain) used as a whole
        ("sum(S[0:2,1:3])", ("msum", ("mslice", Sm, (0, 2, None), (1, 3, None)))), ("fro(S[0:2,1:3])", ("fro", ("mslice", Sm, (0, 2, None), (1, 3, None)))),
        ("sum(S[0:2,0:2])", ("msum", ("mslice", Sm, (0, 2, None), (0, 2, None)))), ("sum(S[::-1,:].T)", ("msum", ("mT", ("mslice", Sm, (None, None, -1), (None, None, None))))),
        ("fro(S[1:3,0:2])", ("fro", ("mslice", Sm, (1, 3, None), (0, 2, None)))), ("sum(S[0:1,:])", ("msum", ("mslice", Sm, (0, 1, None), (None, None, None)))),
        ("sum(A[0:2,1:3])", ("msum", ("mslice", M, (0, 2, None), (1, 3, None)))), ("fro(A[::2,::-1].T)", ("fro", ("mT", ("mslice", M, (None, None, 2), (None, None, -1))))),
        ("sum(S[0:2,1:3]*S[1:3,0:2])", ("msum", ("mbin", "*", ("mslice", Sm, (0, 2, None), (1, 3, None)), ("mslice", Sm, (1, 3, None), (0, 2, None))))),
    ]


def constraint_forms(n):
    v, w = ("vec", "v", n), ("vec", "w", 3)
    X, Y = ("var", "x"), ("var", "y")
    M = ("mat", "A", 3, 3)
    return [
        ("none", []),
        ("sum(v)>=1", [("ge", ("vsum", v), ("num", 1.0))]),
        ("c@v<=p", [("le", ("lincomb", [1.0] * n, v), ("param", "p"))]),
        ("sum(v^2)<=1", [("le", ("vsum", ("vpow", v, 2)), ("num", 1.0))]),
        ("sum(v[0:2])>=0", [("ge", ("vsum", ("slice", v, 0, 2, None)), ("num", 0.0))]),
        ("v[3]>=0", [("ge", ("velem", v, 3), ("num", 0.0))]),
        ("x>=0", [("ge", X, ("num", 0.0))]),
        ("y==x", [("eq", Y, X)]),
        ("sum(w)<=1", [("le", ("vsum", w), ("num", 1.0))]),
        ("1<=2", [("le", ("const", 1.0), ("num", 2.0))]),
        ("A[0,0]>=v[11]", [("ge", ("melem", M, 0, 0), ("velem", v, 11))]),
        ("two", [("ge", ("vsum", v), ("num", 1.0)), ("le", ("dot", v, v), ("num", 4.0))]),
        ("sum(v[0:6])>=1", [("ge", ("vsum", ("slice", v, 0, 6, None)), ("num", 1.0))]),
        ("sum(v[0:6:2])>=1", [("ge", ("vsum", ("slice", v, 0, 6, 2)), ("num", 1.0))]),
        ("sum(A[0,:])>=1", [("ge", ("vsum", ("mrow", M, 0)), ("num", 1.0))]),
        ("sum(A[:,1])<=1", [("le", ("vsum", ("mcol", M, 1)), ("num", 1.0))]),
        ("sum(v[3:9])<=1", [("le", ("vsum", ("slice", v, 3, 9, None)), ("num", 1.0))]),
    ]


def problems(tier):
    out = []
    n = 12
    objs, cons = objective_forms(n), constraint_forms(n)
    bounds = {"v": (S("lv"), S("uv")), "x": (None, S("ux")), "A": (0.0, None), "S": (S("lS"), 1.0), "w": (None, None)}
    for (to, o), (tc, c) in itertools.product(objs, cons):
        out.append(dict(tag=f"{to} | {tc}", obj=o, sense="min", cons=c, bounds=bounds))
    # 99 -> 100 digit boundary
    big = ("vec", "v", 101)
    for to, o in [("sum(v101)", ("vsum", big)), ("sum(v101[::-1])", ("vsum", ("slice", big, None, None, -1))), ("v[100]+v[99]+v[9]+v[10]", ("bin", "+", ("bin", "+", ("velem", big, 100), ("velem", big, 99)), ("bin", "+", ("velem", big, 9), ("velem", big, 10))))]:
        for tc, c in [("none", []), ("x>=0", [("ge", ("var", "x"), ("num", 0.0))])]:
            out.append(dict(tag=f"{to} | {tc}", obj=o, sense="max", cons=c, bounds={"v": (S("lv"), None)}))
    # scalar names: digit chunks, ties, construction order
    for names in (["x10", "x9", "x2"], ["b", "a10", "a9", "a"], ["x1", "x01"], ["x01", "x1"], ["y2z10", "y2z9", "y10z1"], ["r2c10", "r2c9", "r10c1"]):
        e = ("var", names[0])
        for nm in names[1:]:
            e = ("bin", "+", e, ("var", nm))
        out.append(dict(tag="names:" + ",".join(names), obj=e, sense="min", cons=[], bounds={}))
    # containers whose BASE name carries digits (element names have two or three digit chunks)
    w2, w10, w02 = ("vec", "w2", 3), ("vec", "w10", 3), ("vec", "w02", 2)
    B2, B10 = ("mat", "B2", 2, 2), ("mat", "B10", 2, 2)
    big2 = ("vec", "q9", 11)
    plus = lambda a, b_: ("bin", "+", a, b_)  # noqa: E731
    nb = {"w2": (0.0, S("uv")), "w10": (S("lv"), 10.0), "w02": (None, None), "B2": (0.0, None), "B10": (None, S("ux")), "q9": (S("lv"), None), "q10": (None, None)}
    for tag_, o, c in [
        ("sum(w2)+sum(w10)", plus(("vsum", w2), ("vsum", w10)), [("ge", plus(("velem", w2, 0), ("velem", w10, 0)), ("num", 1.0))]),
        ("sum(w10)+sum(w2)", plus(("vsum", w10), ("vsum", w2)), []),
        ("w2.w2+w10^2", plus(("dot", w2, w2), ("bin", "*", ("var", "w10"), ("var", "w10"))), []),
        ("sum(w2)+sum(w02)", plus(("vsum", w2), ("vsum", w02)), []),
        ("sum(B2)+sum(B10)", plus(("msum", B2), ("msum", B10)), [("le", ("trace", B10), ("num", 1.0))]),
        ("sum(q9)+sum(q10[::-1])", plus(("vsum", big2), ("vsum", ("slice", ("vec", "q10", 3), None, None, -1))), []),
        ("sum(w10[::-1])", ("vsum", ("slice", w10, None, None, -1)), [("ge", ("vsum", w2), ("num", 0.0))]),
    ]:
        out.append(dict(tag=f"digit-names:{tag_}", obj=o, sense="min", cons=c, bounds=nb))
    return out


def observe(model, val):
    p, b = LM.build_model(model, val)
    vs = p.variables
    out = dict(names=[v.name for v in vs], n=p.n_variables, bounds=p.get_bounds(), again=[v.name for v in p.variables],
               domains=[v.domain for v in vs])
    # the same listing with the deep-tree (iterative) traversals forced from outside
    from vf.props import c15
    old = c15.set_thresholds(0)
    try:
        p2, _ = LM.build_model(model, val)
        try:
            out["names_iterative"] = [v.name for v in p2.variables]
        except Exception as e:  # noqa: BLE001
            out["names_iterative"] = e
    finally:
        c15.restore_thresholds(old)
    # the same model reached through EDITS: an earlier objective mentioned two more variables (listed, bounds read),
    # then the real objective object was installed; and a sense flip back and forth with the same objective object.
    # 'exactly those it mentions' speaks about the problem as it is now, not about its history.
    from optyx import Variable
    hist = {}
    try:
        p3, _ = LM.build_model(model, val)
        real, setter = p3.objective, (p3.minimize if model["sense"] == "min" else p3.maximize)
        other = p3.maximize if model["sense"] == "min" else p3.minimize
        setter(real + 2.0 * Variable("zz9", lb=0.0) - Variable("a0"))
        hist["before"] = [v.name for v in p3.variables]
        p3.get_bounds()
        setter(real)
        hist["after-reobj"] = [v.name for v in p3.variables]
        hist["after-reobj-n"] = (p3.n_variables, len(p3.get_bounds()))
        other(real)
        _ = p3.variables
        setter(real)
        hist["after-flip"] = [v.name for v in p3.variables]
    except Exception as e:  # noqa: BLE001
        hist["error"] = e
    out["hist"] = hist
    return out


def _hist_problem(out):
    """None or a description of what is wrong with the listings obtained through the edit history"""
    h = out["hist"]
    if "error" in h:
        return f"edit history raises {h['error']!r}"
    if not {"zz9", "a0"} <= set(h["before"]):
        return f"the earlier objective's extra variables are not listed: {h['before'][:8]}"
    for k in ("after-reobj", "after-flip"):
        if h[k] != out["names"]:
            return f"{k}: variables {h[k][:8]} differ from those of the same problem built directly {out['names'][:8]}"
    if h["after-reobj-n"] != (len(out["names"]), len(out["names"])):
        return f"after-reobj: n_variables / len(get_bounds()) = {h['after-reobj-n']} for {len(out['names'])} variables"
    return None


def check_problem(model, planted=False):
    from vf.engine import smt
    res = []
    names = LM.model_names(model)
    allv = names["vars"] + names["syms"] + names["params"]
    val = K.sym_val(allv)
    want = mentioned(model)
    want_order = sorted(want, key=lambda n_: (natural_key(n_), n_))
    tag = model["tag"]
    payload = dict(kind="vars", model=K.enc(model))
    form = tag.split(" | ")[0] if " | " in tag else tag.split(":")[0]
    for dec, labels, pc, out in K.explore(lambda: observe(model, val), max_paths=50):
        got = out["names"]
        if planted:
            got = got[1:]
        if len(set(got)) != len(got):
            res.append(violation(f"C16|duplicates|{form}", f"{tag}: duplicate entries in variables {got[:8]}", payload))
        missing = sorted(want - set(got), key=natural_key)
        extra = sorted(set(got) - want, key=natural_key)
        if missing:
            # does the model's value really depend on a missing variable?  (solver query)
            dep = _depends(model, missing[0], val, allv)
            res.append(violation(f"C16|missing|{form}", f"{tag}: variables lack {missing[:5]} (dependence of the model on {missing[0]}: {dep})", payload))
        if extra:
            res.append(violation(f"C16|extra|{form}", f"{tag}: variables contain unmentioned {extra[:5]}", payload))
        if not missing and not extra:
            res.append(proved(f"{tag}: set of variables == mentioned"))
            if got != want_order:
                res.append(violation(f"C16|order|{form}", f"{tag}: order {got[:6]}... is not the natural order {want_order[:6]}...", payload))
            else:
                res.append(proved(f"{tag}: natural order"))
        if isinstance(out["names_iterative"], Exception) or out["names_iterative"] != out["names"]:
            res.append(violation(f"C16|iterative-listing|{form}", f"{tag}: with the deep-tree traversals the variables are {out['names_iterative']!r}, with the recursive ones {out['names'][:8]}", dict(payload, th0=True)))
        else:
            res.append(proved(f"{tag}: deep-tree traversal lists the same variables"))
        hp = _hist_problem(out)
        if hp:
            res.append(violation(f"C16|edit-history|{form}", f"{tag}: {hp}", dict(payload, hist=True)))
        else:
            res.append(proved(f"{tag}: same variables after replacing the objective / flipping the sense"))
        if out["n"] != len(out["names"]) or out["again"] != out["names"]:
            res.append(violation(f"C16|n_variables|{form}", f"{tag}: n_variables / repeated read inconsistent", payload))
        claims, bad = [], None
        for nme, (glb, gub) in zip(out["names"], out["bounds"]):
            lb, ub = LM.declared_bounds(model, nme, val)
            for g, d in ((glb, lb), (gub, ub)):
                if (g is None) != (d is None):
                    bad = (nme, g, d)
                elif g is not None:
                    claims.append(smt.eq(g, d))
        if bad:
            res.append(violation(f"C16|bounds|{form}", f"{tag}: get_bounds of {bad[0]} is {bad[1]}, declared {bad[2]}", payload))
        elif claims:
            res.append(K.decide(claims, pc, [], f"{tag}: get_bounds == declared bounds", f"C16|bounds-values|{form}", payload, allv, QT[_TIER]))
    return res


def _depends(model, name, val, allv):
    """sat <=> some user expression takes different values at two points that differ only in `name`"""
    from vf.engine import smt
    from vf.engine.sym import SReal, sbool_term
    import z3
    v2 = dict(val)
    v2[name] = SReal.var(name + "'")
    diffs = []
    for r in [model["obj"]] + [c[1] for c in model["cons"]] + [c[2] for c in model["cons"]]:
        a, b = Ref(val, 0).S(r), Ref(v2, 0).S(r)
        diffs.append(z3.Not(sbool_term(smt.eq(a, b))))
    return smt.satisfiable([z3.Or(diffs)])


def check_seeds(models):
    """'deterministic': same listing under different hash seeds (fresh processes)"""
    import json
    import subprocess
    import sys
    res = []
    blob = json.dumps([K.enc(m) for m in models])
    outs = []
    for seed in ("0", "1", "2", "12345"):
        p = subprocess.run([sys.executable, "-c",
                            "import sys, json; sys.path.insert(0, '/verif')\n"
                            "from vf.props import common as K, lpmodels as LM\n"
                            "ms = [K.dec(s) for s in json.loads(sys.stdin.read())]\n"
                            "out = []\n"
                            "for m in ms:\n"
                            "    names = LM.model_names(m)\n"
                            "    val = {n: 0.5 for n in names['vars'] + names['syms'] + names['params']}\n"
                            "    p, b = LM.build_model(m, val)\n"
                            "    out.append([v.name for v in p.variables])\n"
                            "print(json.dumps(out))\n"],
                           input=blob, capture_output=True, text=True, env={"PYTHONHASHSEED": seed, "PATH": "/usr/bin:/bin"}, timeout=600)
        if p.returncode != 0:
            return [harness_error(f"seed run failed: {p.stderr[-300:]}")]
        outs.append(json.loads(p.stdout.strip().splitlines()[-1]))
    for i, m in enumerate(models):
        lists = [o[i] for o in outs]
        if any(l != lists[0] for l in lists):
            res.append(violation(f"C16|hash-seed-dependent|{m['tag'].split(':')[0]}", f"{m['tag']}: variable order depends on PYTHONHASHSEED: {lists[0][:4]} vs {[l for l in lists if l != lists[0]][0][:4]}",
                                 dict(kind="seed", model=K.enc(m))))
        else:
            res.append(proved(f"{m['tag']}: same listing under 4 hash seeds"))
    return res


def items(tier, seed):
    ps = problems(tier)
    its = [("twin", 0), ("seeds", [p for p in ps if p["tag"].startswith("names:") or " | none" in p["tag"]][:60])]
    its += [("ps", ch) for ch in K.chunks(ps, 12)]
    return its


def check(item):
    kind, payload = item
    if kind == "ps":
        return K.safe_items(check_problem, payload, lambda m: m["tag"])
    if kind == "seeds":
        return check_seeds(payload)
    if kind == "twin":
        ps = problems("quick")
        rr = check_problem(ps[0], planted=True)
        return [dict(status="conformance", what="twin refuted", points=1) if any(x["status"] == "violation" for x in rr) else harness_error("twin not refuted")]
    raise ValueError(kind)


def replay(payload):
    model = K.dec(payload["model"])
    if payload["kind"] == "seed":
        r = check_seeds([model])
        return r[0]["status"] == "violation", r[0]["what"]
    names = LM.model_names(model)
    val = {n: 0.5 + 0.1 * i for i, n in enumerate(names["vars"] + names["syms"] + names["params"])}
    out = observe(model, val)
    want = mentioned(model)
    got = out["names"]
    if len(set(got)) != len(got):
        return True, f"duplicates in {got}"
    if set(got) != want:
        return True, f"variables {sorted(set(got) - want)} extra, {sorted(want - set(got))} missing"
    if got != sorted(want, key=lambda n_: (natural_key(n_), n_)):
        return True, f"order {got[:8]} is not the natural order {sorted(want, key=natural_key)[:8]}"
    if payload.get("hist") and _hist_problem(out):
        return True, _hist_problem(out)
    if payload.get("th0") and (isinstance(out["names_iterative"], Exception) or out["names_iterative"] != got):
        return True, f"deep-tree traversal lists {out['names_iterative']!r}, recursive traversal {got}"
    for nme, (glb, gub) in zip(out["names"], out["bounds"]):
        lb, ub = LM.declared_bounds(model, nme, val)
        if (glb is None) != (lb is None) or (gub is None) != (ub is None) or (lb is not None and abs(glb - lb) > 1e-12) or (ub is not None and abs(gub - ub) > 1e-12):
            return True, f"get_bounds of {nme} = {(glb, gub)}, declared {(lb, ub)}"
    return False, "no difference reproduced"
