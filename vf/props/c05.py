"""C05 - the extracted LP is the model the user wrote.

Linear models are written through every API form with SYMBOLIC coefficients,
constants, right-hand sides and bounds; the real LinearProgramExtractor (and
extract_linear_coefficient / extract_constant_term) run on them, and z3 proves
for all x and all data:  c.x + c0 == obj(x);  per inequality row
A_ub[r].x - b_ub[r] == (smaller side - larger side)(x);  per equality row
A_eq[r].x - b_eq[r] == (lhs - rhs)(x);  LP.variables[i] names column i (x is
indexed by LP.variables);  LP.bounds[i] == declared bounds."""
from __future__ import annotations

import numpy as np

from vf.engine.recipes import Ref, show
from vf.props import common as K
from vf.props import lpmodels as LM
from vf.props.common import harness_error, inconclusive, proved, violation

ID = "C05"
LEVEL = "model_checking"
ITEM_BUDGET_S = {"quick": 300, "thorough": 1200}
QT = {"quick": 15000, "thorough": 30000}
_TIER = "quick"

META = dict(
    rule="one case = (model recipe, obligation in {objective, row k, bounds, single-variable extractors}, path); the solver quantifies over the point and over every coefficient / constant / rhs / bound",
    bounds={
        "quick": "54 API forms of a linear expression x {objective min/max, constraint lhs with each of 5 sense/orientation kinds under a scalar and under a single-vector objective, 3-constraint mixed model}; n=3 vectors, 2x2 matrices; <=3 constraints",
        "thorough": "adds all pairs (objective form x constraint form / 3)",
    },
    outside=["rounding (S7)", "models optyx does not treat as LP (extraction raises NonLinearError): counted, not asserted", "more than 3 constraints, n>3"],
    assumptions=["S1", "S2", "S7"],
    exhaustive_within_bounds=True,
)


def worker_init(tier, seed):
    global _TIER
    _TIER = tier


def items(tier, seed):
    ms = LM.lp_models(tier)
    return [("twin", 0)] + [("ms", ch) for ch in K.chunks(ms, 6)]


def observe(model, val):
    from optyx.analysis import LinearProgramExtractor, extract_constant_term, extract_linear_coefficient, is_linear
    from optyx.core.errors import NonLinearError
    p, b = LM.build_model(model, val)
    out = {}
    try:
        lp = LinearProgramExtractor().extract(p)
    except NonLinearError as e:
        return {"nonlinear": str(e)[:100], "claims_linear": p._is_linear_problem()}
    except Exception as e:  # noqa: BLE001
        return {"error": e}
    out["lp"] = lp
    try:
        out["c0"] = extract_constant_term(p.objective)
    except Exception as e:  # noqa: BLE001
        out["c0"] = e
    # single-variable extractors on the objective
    single = {}
    for v in p.variables:
        try:
            single[v.name] = extract_linear_coefficient(p.objective, v)
        except Exception as e:  # noqa: BLE001
            single[v.name] = e
    out["single"] = single
    out["pvars"] = [v.name for v in p.variables]
    # the SAME problem extracted again after every declared bound was re-assigned (bounds live on the variables;
    # no minimize / subject_to in between), with another extractor instance
    from vf.engine.sym import SReal
    new = {}
    symbolic = any(isinstance(t, SReal) for t in val.values())
    for i, v in enumerate(p.variables):
        nl, nu = (SReal.var(f"nl{i}"), SReal.var(f"nu{i}")) if symbolic else (-1.5 - i, 2.5 + i)
        v.lb, v.ub = nl, (None if i % 3 == 2 else nu)
        new[v.name] = (v.lb, v.ub)
    try:
        out["lp2"] = LinearProgramExtractor().extract(p)
    except Exception as e:  # noqa: BLE001
        out["lp2"] = e
    out["new_bounds"] = new
    return out


def _dot(row, xs):
    s = 0.0
    for a, x in zip(row, xs):
        s = s + a * x
    return s


def check_model(model, planted=False):
    from vf.engine import smt
    from vf.engine.sym import SymbolicConcretisation
    res = []
    names = LM.model_names(model)
    allv = names["vars"] + names["syms"] + names["params"]
    val = K.sym_val(allv)
    tag = model["tag"]
    for dec, labels, pc, out in K.explore(lambda: observe(model, val), max_paths=300):
        if "nonlinear" in out:
            if out["claims_linear"]:
                res.append(violation(f"C05|claims-linear-but-extraction-raises|{tag.split(':')[1] if ':' in tag else tag}",
                                     f"{tag}: _is_linear_problem() is True but extraction raises", dict(kind="raises", model=K.enc(model))))
            else:
                res.append(dict(status="conformance", what=f"not treated as LP: {tag}", points=0))
            continue
        if "error" in out:
            e = out["error"]
            if isinstance(e, SymbolicConcretisation):
                res.append(harness_error(f"concretisation: {e}", item=tag))
            else:
                res.append(violation(f"C05|extract-raises:{type(e).__name__}|{tag}", f"{tag}: extract raises {type(e).__name__}: {e}", dict(kind="raises", model=K.enc(model))))
            continue
        lp = out["lp"]
        cols = list(lp.variables)
        missing = [n for n in cols if n not in val]
        if missing:
            res.append(harness_error(f"LP mentions unknown variables {missing}", item=tag))
            continue
        xs = [val[n] for n in cols]
        ref = Ref(val, diff=0)
        obj_ref = ref.S(model["obj"])
        payload = dict(kind="lp", model=K.enc(model))
        form = tag.split(":")[1] if ":" in tag else tag
        # objective
        c0 = out["c0"]
        if isinstance(c0, Exception):
            res.append(violation(f"C05|constant-raises|{form}", f"{tag}: extract_constant_term raises {c0}", dict(payload, kind="raises")))
        else:
            lhs = _dot(lp.c, xs) + c0 + (1.0 if planted else 0.0)
            res.append(K.decide(smt.eq(lhs, obj_ref), pc, ref.dom, f"{tag}: c.x + c0 == objective", f"C05|objective|{form}", dict(payload, ob="objective"), allv, QT[_TIER]))
            # single-variable extractor agrees with the cost vector
            claims = []
            for n, cv in out["single"].items():
                if isinstance(cv, Exception):
                    res.append(violation(f"C05|coefficient-raises|{form}", f"{tag}: extract_linear_coefficient({n}) raises {cv}", dict(payload, kind="raises")))
                    continue
                claims.append(smt.eq(cv, lp.c[cols.index(n)]))
            if claims:
                res.append(K.decide(claims, pc, ref.dom, f"{tag}: extract_linear_coefficient == cost vector", f"C05|single-coefficient|{form}", dict(payload, ob="single"), allv, QT[_TIER]))
        # sense
        if lp.sense != ("min" if model["sense"] == "min" else "max"):
            res.append(violation(f"C05|sense|{form}", f"{tag}: LP sense {lp.sense}", dict(payload, kind="raises")))
        # rows
        iu = ie = 0
        for k, (kind, lhs_r, rhs_r) in enumerate(model["cons"]):
            sense, value = LM.con_ref(ref, kind, lhs_r, rhs_r)
            try:
                if sense == "<=":
                    row, rhs = lp.A_ub[iu], lp.b_ub[iu]
                    iu += 1
                else:
                    row, rhs = lp.A_eq[ie], lp.b_eq[ie]
                    ie += 1
            except Exception as e:  # noqa: BLE001
                res.append(violation(f"C05|row-missing|{form}|{kind}", f"{tag}: constraint {k} has no row ({e})", dict(payload, kind="raises")))
                continue
            got = _dot(row, xs) - rhs + (1.0 if planted else 0.0)
            res.append(K.decide(smt.eq(got, value), pc, ref.dom, f"{tag}: row of constraint {k} ({kind})", f"C05|row|{form}|{kind}", dict(payload, ob=f"row{k}"), allv, QT[_TIER]))
        n_ub = 0 if lp.A_ub is None else len(lp.A_ub)
        n_eq = 0 if lp.A_eq is None else len(lp.A_eq)
        if n_ub != iu or n_eq != ie:
            res.append(violation(f"C05|row-count|{form}", f"{tag}: {n_ub}+{n_eq} rows for {iu}+{ie} constraints", dict(payload, kind="raises")))
        # columns: names unique and equal to the problem's variables
        if len(set(cols)) != len(cols) or cols != out["pvars"]:
            res.append(violation(f"C05|columns|{form}", f"{tag}: LP.variables {cols} vs problem {out['pvars']}", dict(payload, kind="raises")))
        # bounds
        claims = []
        bad = None
        for i, n in enumerate(cols):
            lb, ub = LM.declared_bounds(model, n, val)
            glb, gub = lp.bounds[i]
            for g, d in ((glb, lb), (gub, ub)):
                if (g is None) != (d is None):
                    bad = (n, g, d)
                elif g is not None:
                    claims.append(smt.eq(g, d))
        if bad:
            res.append(violation(f"C05|bounds-none|{form}", f"{tag}: bound of {bad[0]} is {bad[1]} but declared {bad[2]}", dict(payload, kind="raises")))
        elif claims:
            res.append(K.decide(claims, pc, [], f"{tag}: LP.bounds == declared bounds", f"C05|bounds|{form}", dict(payload, ob="bounds"), allv, QT[_TIER]))
        # second extraction after the bounds were re-assigned
        lp2 = out.get("lp2")
        if isinstance(lp2, Exception):
            res.append(violation(f"C05|re-extract-raises|{form}", f"{tag}: extraction after a bound edit raises {lp2!r}", dict(payload, kind="reextract")))
        elif lp2 is not None:
            claims, bad = [], None
            cols2 = list(lp2.variables)
            for i, n in enumerate(cols2):
                lb, ub = out["new_bounds"].get(n, (None, None))
                glb, gub = lp2.bounds[i]
                for g, d in ((glb, lb), (gub, ub)):
                    if (g is None) != (d is None):
                        bad = (n, g, d)
                    elif g is not None:
                        claims.append(smt.eq(g, d))
            nb_names = [f"nl{i}" for i in range(len(cols2))] + [f"nu{i}" for i in range(len(cols2))]
            # ... and the same cost vector and rows as the first extraction (which were compared with the model above)
            same, shape_bad = [], None
            for nm in ("c", "A_ub", "b_ub", "A_eq", "b_eq"):
                a1, a2 = getattr(lp, nm), getattr(lp2, nm)
                if (a1 is None) != (a2 is None) or (a1 is not None and np.shape(a1) != np.shape(a2)):
                    shape_bad = nm
                elif a1 is not None:
                    same += [smt.eq(u, w) for u, w in zip(np.asarray(a1, dtype=object).reshape(-1), np.asarray(a2, dtype=object).reshape(-1))]
            if shape_bad:
                res.append(violation(f"C05|re-extract-data|{form}", f"{tag}: a second extraction returns another shape for {shape_bad}", dict(payload, kind="reextract")))
            elif same:
                res.append(K.decide(same, pc, [], f"{tag}: a second extraction returns the same cost vector and rows", f"C05|re-extract-data|{form}", dict(payload, kind="reextract"), allv + nb_names, QT[_TIER]))
            if bad or cols2 != cols:
                res.append(violation(f"C05|re-extract-bounds|{form}", f"{tag}: after re-assigning the bounds a second extraction gives bound {bad} / columns {cols2}", dict(payload, kind="reextract")))
            else:
                res.append(K.decide(claims, pc, [], f"{tag}: second extraction after a bound edit returns the NEW declared bounds", f"C05|re-extract-bounds|{form}",
                                    dict(payload, kind="reextract"), allv + nb_names, QT[_TIER]))
    return res


def check(item):
    kind, payload = item
    if kind == "ms":
        return K.safe_items(check_model, payload, lambda m: m["tag"])
    if kind == "twin":
        out = []
        ms = [m for m in LM.lp_models("quick") if m["tag"] in ("obj:c@v:min", "con:sum(v)-c0:ge:v", "con2:x*c1")]
        for m in ms:
            rr = check_model(m, planted=True)
            nv = sum(x["status"] == "violation" for x in rr)
            if nv < 2:
                out.append(harness_error(f"reachability twin not refuted for {m['tag']}"))
            else:
                out.append(dict(status="conformance", what=f"twin refuted {m['tag']}", points=1))
        if len(ms) != 3:
            out.append(harness_error("twin models not found"))
        return out
    raise ValueError(kind)


def replay(payload):
    import random
    model = K.dec(payload["model"])
    names = LM.model_names(model)
    allv = names["vars"] + names["syms"] + names["params"]
    pts = K.candidate_points(allv, payload.get("values", {}), 5)
    if payload["kind"] == "raises":
        out = observe(model, pts[-1])
        if "error" in out or ("nonlinear" in out and out["claims_linear"]):
            return True, f"extraction fails: {out}"
        # structural violations are re-derived below
    for pt in pts:
        try:
            out = observe(model, pt)
            if "lp" not in out:
                continue
            if payload["kind"] == "reextract":
                lp2 = out.get("lp2")
                if isinstance(lp2, Exception):
                    return True, f"extraction after a bound edit raises {lp2!r}"
                for n, (glb, gub) in zip(list(lp2.variables), lp2.bounds):
                    lb, ub = out["new_bounds"][n]
                    if (glb is None) != (lb is None) or (gub is None) != (ub is None) or (lb is not None and abs(glb - lb) > 1e-12) or (ub is not None and abs(gub - ub) > 1e-12):
                        return True, f"after re-assigning the bounds of {n} to {(lb, ub)} a second extraction still reports {(glb, gub)}"
                for nm in ("c", "A_ub", "b_ub", "A_eq", "b_eq"):
                    a1, a2 = getattr(out["lp"], nm), getattr(lp2, nm)
                    if (a1 is None) != (a2 is None) or (a1 is not None and (np.shape(a1) != np.shape(a2) or not np.allclose(np.asarray(a1, dtype=float), np.asarray(a2, dtype=float), rtol=1e-9, atol=1e-12))):
                        return True, f"a second extraction of the same problem returns {nm}={np.asarray(a2).tolist()} instead of {np.asarray(a1).tolist()}"
                continue
            lp = out["lp"]
            cols = list(lp.variables)
            xs = [pt[n] for n in cols]
            ref = Ref(pt, diff=0)
            obj_ref = float(ref.S(model["obj"]))
            if not K.in_dom(ref.dom):
                continue
            if cols != out["pvars"] or len(set(cols)) != len(cols):
                return True, f"LP.variables {cols} vs problem variables {out['pvars']}"
            c0 = out["c0"]
            got = float(np.dot(np.asarray(lp.c, dtype=float), xs) + c0)
            if not K.close(got, obj_ref, 1e-7, 1e-9):
                return True, f"at {pt}: c.x + c0 = {got!r} but objective = {obj_ref!r}"
            for n, cv in out["single"].items():
                if isinstance(cv, Exception) or not K.close(float(cv), float(lp.c[cols.index(n)]), 1e-9, 1e-12):
                    return True, f"extract_linear_coefficient({n}) = {cv!r} but cost vector has {lp.c[cols.index(n)]!r}"
            iu = ie = 0
            for k, (kind, lhs_r, rhs_r) in enumerate(model["cons"]):
                sense, value = LM.con_ref(ref, kind, lhs_r, rhs_r)
                if sense == "<=":
                    row, rhs = lp.A_ub[iu], lp.b_ub[iu]
                    iu += 1
                else:
                    row, rhs = lp.A_eq[ie], lp.b_eq[ie]
                    ie += 1
                g = float(np.dot(np.asarray(row, dtype=float), xs) - rhs)
                if not K.close(g, float(value), 1e-7, 1e-9):
                    return True, f"at {pt}: row of constraint {k} ({kind}) gives {g!r}, the user's relation gives {float(value)!r}"
            for i, n in enumerate(cols):
                lb, ub = LM.declared_bounds(model, n, pt)
                glb, gub = lp.bounds[i]
                for g, d in ((glb, lb), (gub, ub)):
                    if (g is None) != (d is None) or (g is not None and not K.close(float(g), float(d), 1e-12, 1e-12)):
                        return True, f"bound of {n}: LP has {g!r}, declared {d!r}"
        except Exception as e:  # noqa: BLE001
            err = e
            continue
    return False, "no difference reproduced"
