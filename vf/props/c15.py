"""C15 - results do not depend on depth or association of the expression tree.

(a) Small trees, BOTH algorithms on every tree: the four _RECURSION_THRESHOLD
module attributes (the property's own observation hook) are set from outside to
0 (iterative algorithms), to a huge value (recursive algorithms) and, on a
sample, to every value 1..6 (switch-over inside the tree).  For every term list
(spine <= 6; base terms: variables, all 19 unary functions, every vector node
kind, parameters, constants), every operator in {+,-,*,/} and '**', built
left-deep, right-deep and balanced: variable discovery, degree, symbolic
gradient, compiled value and compiled gradient are executed symbolically and z3
proves them equal to the reference formula (same association) for all x; for +
and * also equal across associations and to the vectorised build.
(b) Genuinely deep chains at the real threshold (400): 450- and 900-term chains
for compile / evaluate / gradient / solver arguments decided symbolically
against the reference folded in the same association (vectorised for + and *);
5000-/20000-term chains for gradient, degree and variable discovery.  No
RecursionError may escape (the Python recursion limit stays at its default)."""
from __future__ import annotations

import sys

import numpy as np

from vf.engine.recipes import ALL_UNARY, Ref, free_names, show
from vf.props import common as K
from vf.props.common import harness_error, inconclusive, proved, violation

ID = "C15"
LEVEL = "model_checking"
ITEM_BUDGET_S = {"quick": 400, "thorough": 1500}
QT = {"quick": 3000, "thorough": 8000}
_TIER = "quick"
BIG = 10 ** 9

META = dict(
    rule="one case = (term list, operator, association, threshold setting, observation, path)",
    bounds={
        "quick": "spine length 2..6; base terms x_i, f(x_i) for all 19 f, 12 vector/matrix node kinds, parameter, symbolic constant; thresholds {0, 10^9} on every tree and 1..6 on the depth-6 chains; deep chains of 450 and 900 terms (+,-,*,/ and mixed unary/vector terms) symbolic, 5000 / 20000 terms for gradient, degree and variable discovery",
        "thorough": "adds every threshold 0..6 on every tree and a 1500-term chain (gradient construction, degree, variables only: evaluate / compile are claimed up to 900 terms)",
    },
    outside=["rounding (S7)", "accumulations beyond 900 terms for compile/evaluate (documented supported depth) and beyond 20000 for gradient/degree/variables", "re-association of '-' and '/' (not associative: compared in the same association)"],
    assumptions=["S1", "S2", "S6", "S7", "thresholds are lowered from outside through the module attribute (no edit to /repo)"],
    exhaustive_within_bounds=True,
)


def worker_init(tier, seed):
    global _TIER
    _TIER = tier
    sys.setrecursionlimit(1000)  # the default a user runs with: RecursionError must show


def set_thresholds(th):
    import optyx.analysis as An
    import optyx.core.autodiff as A
    import optyx.core.compiler as C
    import optyx.core.expressions as E
    old = (E._RECURSION_THRESHOLD, C._RECURSION_THRESHOLD, A._RECURSION_THRESHOLD, An._RECURSION_THRESHOLD)
    E._RECURSION_THRESHOLD = C._RECURSION_THRESHOLD = A._RECURSION_THRESHOLD = An._RECURSION_THRESHOLD = th
    return old


def restore_thresholds(old):
    import optyx.analysis as An
    import optyx.core.autodiff as A
    import optyx.core.compiler as C
    import optyx.core.expressions as E
    E._RECURSION_THRESHOLD, C._RECURSION_THRESHOLD, A._RECURSION_THRESHOLD, An._RECURSION_THRESHOLD = old


def base_terms():
    v = K.V3
    xs = [("var", f"v[{i}]") for i in range(3)]
    out = [("x", [("velem", v, 0), ("velem", v, 1), ("velem", v, 2), K.X, K.Y, K.Z])]
    for f in ALL_UNARY:
        out.append((f, [("un", f, ("velem", v, 0)), ("velem", v, 1), ("un", f, K.X), K.Y, ("un", f, ("bin", "*", K.X, K.Y)), ("velem", v, 2)]))
    nodes = [("vsum", v), ("dot", v, v), ("dot", v, K.W3), ("norm", v, 2), ("norm", v, 1), ("lincomb", [("sym", "k0"), 2.0, -1.0], v),
             ("quad", v, [[1.0, 2.0, 0.0], [0.0, ("sym", "q"), 0.0], [1.0, 0.0, 3.0]]), ("vsum", ("vpow", v, 2)), ("vsum", ("vun", "sin", v)),
             ("vsum", ("vbin", "*", v, K.W3)), ("msum", ("mat", "A", 2, 2)), ("fro", ("mat", "A", 2, 2)), ("lincomb", [1.0, 2.0, 3.0], ("vbin", "+", v, K.W3))]
    for i, nd in enumerate(nodes):
        out.append((f"node{i}", [nd, K.X, nodes[(i + 1) % len(nodes)], ("velem", v, 1), K.Y, nd]))
    out.append(("param", [("param", "p"), K.X, ("const", ("sym", "c")), K.Y, ("param", "p"), ("num", 2.0)]))
    # a constant FIRST, then vector reductions and more constants (reflected operators at the bottom of the spine)
    out.append(("constfirst", [("const", 4.0), ("vsum", v), ("num", 1.0), ("lincomb", [("sym", "k0"), 2.0, -1.0], v), ("const", ("sym", "c")), ("dot", v, v)]))
    # reductions over DIFFERENT views that carry the same display name (the step of a slice and the column range of a
    # matrix row are not part of the name): each view's variables must be found
    u = ("vec", "u", 6)
    R = ("mat", "R", 1, 4)
    out.append(("views", [("vsum", ("slice", u, 0, 6, 2)), ("vsum", ("slice", u, 0, 6, 3)), ("lincomb", [("sym", "k0"), 2.0], ("mrowpart", R, 0, (0, 2, None))),
                          ("vsum", ("mrowpart", R, 0, (2, 4, None))), ("vsum", ("vpow", ("slice", u, 1, 6, 2), 2)), ("dot", ("slice", u, 1, 6, 4), ("slice", u, 1, 6, 4))]))
    out.append(("views2", [("norm", ("slice", u, 0, 6, 3), 1), ("norm", ("slice", u, 0, 6, 2), 1), K.X, ("lincomb", [1.0, ("sym", "k0")], ("slice", u, 1, 6, 4)),
                           ("lincomb", [3.0, 1.0, 2.0], ("slice", u, 1, 6, 2)), ("vsum", ("slice", u, 0, 6, 5))]))
    return out


def small_recipes(tier):
    out = []
    rich = {"x", "sin", "node0", "param", "constfirst", "views", "views2"}
    for tag, terms in base_terms():
        for op in (("+", "-") if tag.startswith("views") else ("+", "-", "*", "/")):
            sizes = (2, 3, 6) if (op in ("+", "-") or tag in rich or tier == "thorough") else (2, 3)
            for n in sizes:
                for assoc in ("left", "right", "balanced"):
                    if n == 2 and assoc != "left":
                        continue
                    out.append((f"{tag}|{op}|{n}|{assoc}", ("chain", op, terms[:n], assoc)))
        # powers inside a chain (operand order matters)
        out.append((f"{tag}|**|left", ("bin", "**", ("chain", "+", terms[:3], "left"), ("const", 2))))
        out.append((f"{tag}|**|nested", ("chain", "-", [("bin", "**", terms[0], ("const", 3)), ("bin", "**", ("const", 2.0), terms[1]), ("bin", "**", terms[2], terms[3])], "left")))
        # unary on top of / inside a chain
        out.append((f"{tag}|neg-chain", ("un", "neg", ("chain", "-", terms[:4], "left"))))
        out.append((f"{tag}|sin-chain", ("chain", "*", [("un", "sin", ("chain", "+", terms[:3], "left")), terms[3], ("un", "exp", terms[4])], "right")))
    return out


def observe(recipe, val, th):
    """all observations of one tree under one threshold setting"""
    from optyx import Problem
    from optyx.core import autodiff as A
    from optyx.core import compiler as C
    from optyx.core.expressions import get_all_variables
    import optyx.analysis as An
    from vf.engine import npshim
    old = set_thresholds(th)
    try:
        npshim.clear_optyx_caches()
        b, e = K.build_recipe(recipe, val)
        names = free_names(recipe)
        cols = names["vars"]
        V = [b.S(("var", n)) for n in cols]
        x = np.empty(len(cols), dtype=object)
        for i, n in enumerate(cols):
            x[i] = val[n]
        if not any(hasattr(t, "t") for t in x):
            x = np.array([float(t) for t in x])
        point = {n: val[n] for n in cols}
        out = {}

        def rec(name, fn):
            try:
                out[name] = fn()
            except RecursionError as ex:
                out[name] = ex
            except Exception as ex:  # noqa: BLE001
                out[name] = ex

        rec("variables", lambda: sorted(v.name for v in get_all_variables(e)))
        rec("problem.variables", lambda: [v.name for v in Problem().minimize(e).variables])
        rec("degree", lambda: An.compute_degree(e))

        def warm_degree():
            # a fresh tree whose sub-expressions were classified on their own first (public queries)
            from optyx.core.expressions import Expression
            b2, e2 = K.build_recipe(recipe, val)
            for sub in K.reachable(e2)[:-1]:
                if isinstance(sub, Expression):
                    try:
                        sub.degree
                        sub.is_linear()
                    except RecursionError:
                        pass
            return An.compute_degree(e2), e2.degree
        rec("degree_warm", warm_degree)
        rec("evaluate", lambda: e.evaluate(point))
        rec("compile", lambda: C.compile_expression(e, V)(x))
        rec("gradient", lambda: [A.gradient(e, v).evaluate(point) for v in V])
        rec("compile_gradient", lambda: list(np.asarray(C.compile_gradient(e, V)(x)).reshape(-1)))
        rec("compile_jacobian", lambda: list(np.asarray(A.compile_jacobian([e], V)(x)).reshape(-1)))
        return out
    finally:
        restore_thresholds(old)
        npshim.clear_optyx_caches()


def used(recipe):
    names = free_names(recipe)
    # which names FLOW into the value (a slice of a declared vector mentions only its own elements): a name-set valued
    # run of the reference formula; falls back to the names the reference interpreter reads
    try:
        from vf.props.c16 import NameSet
        nv = {n: NameSet([n]) for n in names["vars"]}
        for n in names["syms"] + names["params"]:
            nv[n] = NameSet()
        v = Ref(nv, 0).S(recipe)
        if isinstance(v, NameSet):
            return sorted(v.n)
    except Exception:  # noqa: BLE001
        pass
    val = {n: 1.0 for n in names["vars"] + names["syms"] + names["params"]}
    r = Ref(val, 0)
    r.S(recipe)
    return sorted(n for n in names["vars"] if n in r.read)


def check_tree(tag, recipe, ths, planted=False, budget=300):
    from vf.engine import smt
    from vf.engine.sym import SymbolicConcretisation
    res = []
    names = free_names(recipe)
    cols = names["vars"]
    allv = cols + names["syms"] + names["params"]
    val = K.sym_val(allv)
    ref = Ref(val, 0)
    oval = ref.S(recipe) + (1.0 if planted else 0.0)
    dom = list(ref.dom)
    ograd = []
    ddom = []
    for w in cols:
        r = Ref(K.dual_val(val, w), 1)
        ograd.append(K.tangent(r.S(recipe)) + (1.0 if planted else 0.0))
        ddom = r.dom
    want_vars = used(recipe)
    degs = {}
    for th in ths:
        algo = "iterative" if th == 0 else "recursive" if th >= BIG else f"th={th}"
        for dec, labels, pc, out in K.explore(lambda: observe(recipe, val, th), max_paths=budget, clear_caches=False):
            payload = dict(kind="tree", tag=tag, recipe=K.enc(recipe), th=th)
            for name, got in out.items():
                what = f"{tag} [{algo}] {name}"
                sig = f"C15|{name}|{algo if th in (0, BIG) else 'mixed'}|{tag.split('|')[0]}"
                if isinstance(got, SymbolicConcretisation):
                    res.append(K.vacuous_or_error(got, pc, dom if name in ("evaluate", "compile") else ddom, what, tag))
                    continue
                if isinstance(got, Exception):
                    res.append(violation(sig + f"|raises:{type(got).__name__}", f"{what} raises {type(got).__name__}: {str(got)[:100]}", dict(payload, ob=name, kind="raises")))
                    continue
                if name in ("variables", "problem.variables"):
                    ok = sorted(got) == want_vars and (name == "variables" or len(set(got)) == len(got))
                    res.append(proved(what) if ok and not planted else violation(sig, f"{what}: {got} but the formula mentions {want_vars}", dict(payload, ob=name, kind="struct")))
                elif name == "degree":
                    degs[(th, tuple(dec))] = got
                elif name == "degree_warm":
                    degs[(th, tuple(dec), "sub-expressions classified first: compute_degree")] = got[0]
                    degs[(th, tuple(dec), "sub-expressions classified first: .degree")] = got[1]
                elif name in ("evaluate", "compile"):
                    g = got.reshape(-1)[0] if isinstance(got, np.ndarray) else got
                    res.append(K.decide(smt.eq(g, oval), pc, dom, what, sig, dict(payload, ob=name), allv, QT[_TIER]))
                else:
                    res.append(K.decide([smt.eq(a, b) for a, b in zip(got, ograd)], pc, ddom, what, sig, dict(payload, ob=name), allv, QT[_TIER]))
    # degree must not depend on the algorithm
    vals = set(degs.values())
    if len(vals) > 1:
        res.append(violation(f"C15|degree|algorithms-disagree|{tag.split('|')[0]}", f"{tag}: degree depends on the traversal: {sorted(map(str, vals))}", dict(kind="degree", tag=tag, recipe=K.enc(recipe), ths=list(ths))))
    elif degs:
        res.append(proved(f"{tag}: degree {vals.pop()} under every threshold"))
    return res


def check_assoc(tag, terms, op):
    """+ and * : left-deep == right-deep == balanced (== vectorised for pure variable lists)"""
    from vf.engine import smt
    res = []
    recs = [("chain", op, terms, a) for a in ("left", "right", "balanced")]
    names = K.all_names(recs)
    allv = names["vars"] + names["syms"] + names["params"]
    val = K.sym_val(allv)
    vals = []
    for r in recs:
        for th in (0, BIG):
            for dec, labels, pc, out in K.explore(lambda: observe(r, val, th), max_paths=50, clear_caches=False):
                if isinstance(out["compile"], Exception) or isinstance(out["degree"], Exception):
                    continue
                c = out["compile"]
                vals.append((r[3], th, c.reshape(-1)[0] if isinstance(c, np.ndarray) else c, out["degree"], tuple(out["variables"]) if not isinstance(out["variables"], Exception) else None, pc))
    if len(vals) >= 2:
        base = vals[0]
        dom = []
        rf = Ref(val, 0)
        rf.S(recs[0])
        claims = [smt.eq(v[2], base[2]) for v in vals[1:]]
        pcs = [c for v in vals for c in v[5]]
        res.append(K.decide(claims, pcs, rf.dom, f"{tag}: value independent of association ({op})", f"C15|association|{op}|{tag}", dict(kind="assoc", tag=tag, terms=K.enc(terms), op=op), allv, QT[_TIER]))
        if len({v[3] for v in vals}) > 1 or len({v[4] for v in vals}) > 1:
            res.append(violation(f"C15|association-structure|{op}|{tag}", f"{tag}: degree/variables depend on association: {[(v[0], v[1], v[3]) for v in vals]}", dict(kind="assoc", tag=tag, terms=K.enc(terms), op=op)))
        else:
            res.append(proved(f"{tag}: degree and variables independent of association"))
    return res


def deep_terms(n, kind):
    v = ("vec", "v", n)
    ts = [("velem", v, i) for i in range(n)]
    if kind == "mixed":
        fs = ALL_UNARY
        for i in range(0, n, 7):
            ts[i] = ("un", fs[(i // 7) % len(fs)], ts[i])
        ts[3] = ("vsum", ("vpow", ("vec", "w", 3), 2))
        ts[5] = ("dot", ("vec", "w", 3), ("vec", "w", 3))
        ts[9] = ("vsum", ("vun", "sin", ("vec", "w", 3)))
        ts[11] = ("param", "p")
        ts[13] = ("norm", ("vec", "w", 3), 2)
    return ts


def check_deep(n, op, kind):
    """a genuinely deep left-accumulated chain at the real threshold"""
    from optyx import Problem
    from optyx.core import autodiff as A
    from optyx.core import compiler as C
    from optyx.core.expressions import get_all_variables
    import optyx.analysis as An
    from vf.engine import npshim, smt, stubs
    import warnings
    res = []
    tag = f"deep|{op}|{n}|{kind}"
    terms = deep_terms(n, kind)
    recipe = ("chain", op, terms, "left")
    names = free_names(recipe)
    cols = names["vars"]
    allv = cols + names["syms"] + names["params"]
    val = K.sym_val(allv)
    symbolic = n <= 1500

    def run():
        npshim.clear_optyx_caches()
        b, e = K.build_recipe(recipe, val)
        V = [b.S(("var", c)) for c in cols]
        out = {}

        def rec(name, fn):
            try:
                out[name] = fn()
            except BaseException as ex:  # noqa: BLE001
                if type(ex).__name__ in ("PathAbort", "ExplorationBudget", "ItemTimeout"):
                    raise
                out[name] = ex
        rec("variables", lambda: sorted(v.name for v in get_all_variables(e)))
        rec("problem.variables", lambda: [v.name for v in Problem().minimize(e).variables])
        rec("degree", lambda: An.compute_degree(e))
        uv = [b.S(("var", c)) for c in used(recipe)]
        wrt = [uv[0], uv[len(uv) // 2], uv[-1]]
        rec("gradient-build", lambda: [A.gradient(e, w) for w in wrt])
        if symbolic:
            x = np.empty(len(cols), dtype=object)
            for i, c in enumerate(cols):
                x[i] = val[c]
            point = {c: val[c] for c in cols}
            if n <= 900:   # the property's supported depth for evaluate / compile / solve is 900 terms
                rec("evaluate", lambda: e.evaluate(point))
                rec("compile", lambda: C.compile_expression(e, V)(x))
            # the derivative TREE of a long quotient chain is much deeper than the chain itself: evaluating it over the
            # numeric proxy (several Python frames per operation) exhausts the default recursion limit although the
            # float run does not; beyond these sizes only the construction of the gradient is observed
            build_only = n > 900 or (op == "/" and n > 450)
            rec("gradient-build-only" if build_only else "gradient", (lambda: len([A.gradient(e, w) for w in wrt])) if build_only else (lambda: [A.gradient(e, w).evaluate(point) for w in wrt]))

            def solve():
                ms = stubs.MinimizeStub("fixed")
                with stubs.patched(ms, None), warnings.catch_warnings():
                    warnings.simplefilter("ignore")
                    p = Problem().minimize(e)
                    p.solve(method="L-BFGS-B")
                c = ms.calls[0]
                pv = [v_.name for v_ in p.variables]
                xs = np.empty(len(pv), dtype=object)
                for i_, c_ in enumerate(pv):
                    xs[i_] = val[c_]
                jac = np.asarray(c["jac"](xs)).reshape(-1)
                return c["fun"](xs), [jac[pv.index(w.name)] for w in wrt]
            if n <= 500:
                rec("solve", solve)
        return out, [w.name for w in wrt]

    for dec, labels, pc, (out, wrt) in K.explore(run, max_paths=20, clear_caches=False):
        payload = dict(kind="deep", n=n, op=op, terms_kind=kind)
        for name, got in out.items():
            what = f"{tag} {name}"
            sig = f"C15|deep|{name}|{op}|{kind}"
            if isinstance(got, BaseException):
                res.append(violation(sig + f"|raises:{type(got).__name__}", f"{what} raises {type(got).__name__}: {str(got)[:100]}", dict(payload, ob=name)))
                continue
            if name in ("variables", "problem.variables"):
                ok = sorted(got) == sorted(used(recipe))
                res.append(proved(what) if ok else violation(sig, f"{what}: {len(got)} variables found, formula mentions {len(used(recipe))}", dict(payload, ob=name)))
            elif name == "degree":
                exp = None
                if kind == "plain":
                    exp = 1 if op in ("+", "-") else None
                res.append(proved(f"{what} = {got}") if (got == exp or kind != "plain") else violation(sig, f"{what}: {got}, the balanced/vectorised build reports {exp}", dict(payload, ob=name)))
            elif name in ("gradient-build", "gradient-build-only"):
                res.append(proved(what))
            elif name in ("evaluate", "compile"):
                ref = Ref(val, 0)
                o = ref.S(recipe)
                g = got.reshape(-1)[0] if isinstance(got, np.ndarray) else got
                res.append(K.decide(smt.eq(g, o), pc, ref.dom, what, sig, dict(payload, ob=name), allv, QT[_TIER]))
                if op in ("+", "*") and kind == "plain":
                    vec = Ref(val, 0).S(("chain", op, terms, "balanced"))
                    res.append(K.decide(smt.eq(g, vec), pc, [], what + " == balanced build", sig + "|balanced", dict(payload, ob=name), allv, QT[_TIER]))
            elif name == "gradient":
                claims, dd = [], []
                for gv, w in zip(got, wrt):
                    r = Ref(K.dual_val(val, w), 1)
                    claims.append(smt.eq(gv, K.tangent(r.S(recipe))))
                    dd = r.dom
                res.append(K.decide(claims, pc, dd, what, sig, dict(payload, ob=name), allv, QT[_TIER]))
            elif name == "solve":
                f, g = got
                ref = Ref(val, 0)
                claims = [smt.eq(f, ref.S(recipe))]
                dd = list(ref.dom)
                for gv, w in zip(g, wrt):
                    r = Ref(K.dual_val(val, w), 1)
                    claims.append(smt.eq(gv, K.tangent(r.S(recipe))))
                    dd = r.dom
                res.append(K.decide(claims, pc, dd, what + " (fun and jac handed to the solver)", sig, dict(payload, ob=name), allv, QT[_TIER]))
    return res


def items(tier, seed):
    its = [("twin", 0)]
    small = small_recipes(tier)
    ths_all = (0, BIG) if tier == "quick" else (0, 1, 2, 3, 4, 5, 6, BIG)
    for ch in K.chunks(small, 6):
        its.append(("small", (ch, ths_all)))
    if tier == "quick":
        six = [s for s in small if "|6|" in s[0] and s[0].split("|")[0] in ("x", "sin", "acos", "log2", "node1", "node7", "param")]
        for ch in K.chunks(six, 4):
            its.append(("small", (ch, (1, 2, 3, 4, 5, 6))))
    for tag, terms in base_terms():
        for op in ("+", "*"):
            its.append(("assoc", (tag, terms, op)))
    deep = [(450, "+", "plain"), (450, "-", "plain"), (450, "*", "plain"), (450, "/", "plain"), (900, "+", "plain"), (900, "-", "plain"),
            (900, "*", "plain"), (450, "+", "mixed"), (450, "*", "mixed"), (450, "-", "mixed"), (5000, "+", "plain"), (20000, "+", "plain"), (20000, "-", "plain"), (5000, "*", "plain")]
    if tier == "thorough":
        deep += [(900, "/", "plain"), (900, "+", "mixed"), (900, "-", "mixed"), (1500, "+", "plain"), (20000, "*", "plain")]
    its = its[:1] + [("deep", d) for d in deep] + its[1:]
    return its


def check(item):
    kind, payload = item
    try:
        if kind == "small":
            recs, ths = payload
            out = []
            for tag, r in recs:
                try:
                    out += check_tree(tag, r, ths)
                except Exception as e:  # noqa: BLE001
                    import traceback
                    out.append(harness_error(f"{type(e).__name__}: {e}", item=tag, tb=traceback.format_exc()[-1500:]))
            return out
        if kind == "assoc":
            return check_assoc(*payload)
        if kind == "deep":
            return check_deep(*payload)
        if kind == "twin":
            rr = check_tree("twin", ("chain", "-", [K.X, K.Y, ("un", "sin", K.X)], "left"), (0, BIG), planted=True)
            nv = sum(x["status"] == "violation" for x in rr)
            return [dict(status="conformance", what="twin refuted", points=1) if nv >= 8 else harness_error(f"twin not refuted ({nv})")]
    except Exception as e:  # noqa: BLE001
        import traceback
        return [harness_error(f"{type(e).__name__}: {e}", item=repr(payload)[:200], tb=traceback.format_exc()[-1500:])]
    raise ValueError(kind)


def replay(payload):
    import random
    rng = random.Random(15)
    if payload["kind"] == "deep":
        n, op, kind = payload["n"], payload["op"], payload["terms_kind"]
        recipe = ("chain", op, deep_terms(n, kind), "left")
        th_list = [None]
    elif payload["kind"] == "assoc":
        return _replay_assoc(payload)
    else:
        recipe = K.dec(payload["recipe"])
        th_list = [payload.get("th")] if "th" in payload else payload.get("ths", [0, BIG])
    names = free_names(recipe)
    cols = names["vars"]
    allv = cols + names["syms"] + names["params"]
    name = payload.get("ob")
    for attempt in range(4):
        val = {n_: rng.uniform(0.6, 1.4) for n_ in allv}
        degs = set()
        for th in th_list:
            with np.errstate(all="ignore"):
                if th is None:
                    out = _deep_concrete(recipe, val)
                else:
                    out = observe(recipe, val, th)
            if payload["kind"] == "degree":
                degs.add(str(out["degree"]))
                if not isinstance(out.get("degree_warm"), BaseException):
                    degs.update(str(d_) for d_ in out["degree_warm"])
                continue
            got = out.get(name)
            if isinstance(got, BaseException):
                return True, f"{name} raises {type(got).__name__}: {str(got)[:150]}"
            if name in ("variables", "problem.variables"):
                if sorted(got) != used(recipe):
                    return True, f"{name} = {got[:6]}... ({len(got)}) but the formula mentions {len(used(recipe))} variables"
            elif name in ("evaluate", "compile"):
                with np.errstate(all="ignore"):
                    r, ok = K.concrete_ref(recipe, val)
                if ok and np.isfinite(float(r)) and not K.close(float(np.asarray(got).item()), float(r), 1e-6, 1e-9):
                    return True, f"{name} = {float(np.asarray(got).item())!r} but the formula gives {float(r)!r}"
            elif name in ("gradient", "compile_gradient", "compile_jacobian") and th is not None:
                for gv, w in zip(got, cols):
                    with np.errstate(all="ignore"):
                        r, ok = K.concrete_ref(recipe, val, diff=1, wrt=w)
                    d = float(K.tangent(r))
                    if ok and np.isfinite(d) and not K.close(float(np.asarray(gv).item()), d, 1e-6, 1e-8):
                        return True, f"{name} d/d{w} = {float(np.asarray(gv).item())!r} but the derivative is {d!r}"
        if payload["kind"] == "degree" and len(degs) > 1:
            return True, f"degree depends on the traversal: {sorted(degs)}"
    return False, "no difference reproduced"


def _deep_concrete(recipe, val):
    from optyx import Problem
    from optyx.core import compiler as C
    from optyx.core.expressions import get_all_variables
    import optyx.analysis as An
    from optyx.core import autodiff as A
    b, e = K.build_recipe(recipe, val)
    names = free_names(recipe)
    cols = names["vars"]
    V = [b.S(("var", c)) for c in cols]
    x = np.array([val[c] for c in cols])
    out = {}

    def rec(name, fn):
        try:
            out[name] = fn()
        except BaseException as ex:  # noqa: BLE001
            out[name] = ex
    rec("variables", lambda: sorted(v.name for v in get_all_variables(e)))
    rec("problem.variables", lambda: [v.name for v in Problem().minimize(e).variables])
    rec("degree", lambda: An.compute_degree(e))
    rec("gradient-build", lambda: [A.gradient(e, w) for w in (V[0], V[-1])])
    if len(cols) <= 1600:
        rec("evaluate", lambda: e.evaluate({c: val[c] for c in cols}))
        rec("compile", lambda: C.compile_expression(e, V)(x))
    return out


def _replay_assoc(payload):
    import random
    rng = random.Random(16)
    terms = K.dec(payload["terms"])
    op = payload["op"]
    recs = [("chain", op, terms, a) for a in ("left", "right", "balanced")]
    names = K.all_names(recs)
    allv = names["vars"] + names["syms"] + names["params"]
    for attempt in range(4):
        val = {n: rng.uniform(0.6, 1.4) for n in allv}
        vals = []
        for r in recs:
            for th in (0, BIG):
                with np.errstate(all="ignore"):
                    out = observe(r, val, th)
                if isinstance(out["compile"], Exception):
                    return True, f"{r[3]} build raises {out['compile']!r}"
                vals.append((r[3], th, float(np.asarray(out["compile"]).item()), out["degree"]))
        if any(not K.close(v[2], vals[0][2], 1e-7, 1e-9) for v in vals) or len({str(v[3]) for v in vals}) > 1:
            return True, f"association changes the result: {vals}"
    return False, "no difference reproduced"
