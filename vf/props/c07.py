"""C07 - reported objective value and variable values are self-consistent.

Same exploration as C06 (arbitrary solver replies through the stubs S4/S5, where
`fun` is tied to the callable / cost vector optyx passed).  On every path that
returns values and an objective value z3 proves
  objective_value == [[objective]](values)   (user's orientation, constants and
                                              parameters included)
and, structurally, keys(values) == names(problem.variables) ⊇ the variables the
reference formula reads; scalar / vector / matrix handles (including slices,
rows, columns, diagonals, transposes, symmetric matrices) retrieve
values[handle[i].name] at position i (symbolic values)."""
from __future__ import annotations

import numpy as np

from vf.engine.recipes import Ref, declare, free_names, kind_of
from vf.props import common as K
from vf.props import lpmodels as LM
from vf.props import solving as SV
from vf.props.common import harness_error, inconclusive, proved, violation

ID = "C07"
LEVEL = "model_checking"
ITEM_BUDGET_S = {"quick": 600, "thorough": 1800}
QT = {"quick": 15000, "thorough": 30000}
_TIER = "quick"

META = dict(
    rule="one case = (model, method, path with values) for the objective identity; (handle recipe) for the Solution.__getitem__ identities",
    bounds={
        "quick": "26 models x 10 methods (as C06), all data symbolic; 24 handle recipes over vectors n<=4 and matrices <=3x3 (slices with steps and negative indices, rows/cols/diag/T, symmetric)",
        "thorough": "adds the n=3 models and path budget 10000",
    },
    outside=["rounding (S7)", "solver replies that violate S4/S5 (fun not equal to the passed callable at x)"],
    assumptions=["S4: result.fun == fun(result.x) for the callable passed", "S5: result.fun == c.x for the cost vector passed", "S1", "S2", "S7"],
    exhaustive_within_bounds=True,
)


def worker_init(tier, seed):
    global _TIER
    _TIER = tier


def handle_recipes():
    v = ("vec", "v", 4)
    A = ("mat", "A", 2, 3)
    S = ("mat", "S", 3, 3, True)
    B = ("mat", "B", 3, 3)
    return [
        v, ("slice", v, 1, 3, None), ("slice", v, None, None, -1), ("slice", v, 0, None, 2), ("slice", v, -2, None, None),
        ("slice", ("slice", v, 1, None, None), None, None, -1),
        A, ("mT", A), ("mrow", A, 1), ("mcol", A, 2), ("mrow", ("mT", A), 2), ("mcol", ("mT", A), 0),
        ("mslice", A, (0, 2, None), (1, 3, None)), ("mT", ("mslice", A, (0, 2, None), (1, 3, None))),
        S, ("mT", S), ("mrow", S, 2), ("mcol", S, 0), ("mdiag", S), ("mdiag", B, "func"), ("mslice", S, (1, 3, None), (0, 2, None)),
        B, ("mslice", B, (None, None, 2), (None, None, None)), ("mrow", B, -1),
    ]


def items(tier, seed):
    its = [("twin", 0), ("handles", handle_recipes())]
    for m in LM.solve_models(tier):
        for meth in LM.METHODS + LM.EXTRA_METHODS:
            its.append(("mm", (m, meth)))
    # the solve under test as the SECOND solve of a problem object edited in between
    hmeths = ["auto"] if tier == "quick" else ["auto", "SLSQP", "trust-constr", "L-BFGS-B", "BFGS"]
    for im, m in enumerate(LM.solve_models(tier)):
        if tier == "quick" and im % 3 != 1:
            continue
        for h in LM.HISTS:
            if h in ("add-last", "add-last-list", "readd-same-objective") and not m["cons"]:
                continue
            for meth in hmeths:
                its.append(("mm", (m, meth, h)))
    its.sort(key=lambda it: -(len(it[1][0]["cons"]) * 10 + (5 if it[1][1] in ("SLSQP", "auto") else 0)) if it[0] == "mm" else -1000)
    return its


def check_mm(model, method, planted=False, hist=None):
    from vf.engine import smt
    from vf.engine.sym import SymbolicConcretisation
    res = []
    names = LM.model_names(model)
    allv = names["vars"] + names["syms"] + names["params"]
    val = K.sym_val(allv)
    tag = f"{model['tag']}/{method}" + (f"/after {hist}" if hist else "")
    budget = 1200 if _TIER == "quick" else 10000
    observe = (lambda: SV.solve_observe(model, val, method)) if hist is None else (lambda: SV.solve_observe_hist(model, val, method, hist))
    allmodel = allv + [f"m{k}_x{i}" for k in (1, 2, 3) for i in range(12)] + [f"lp{k}_x{i}" for k in (1, 2) for i in range(12)]
    seen = set()
    n = 0
    for dec, labels, pc, o in K.explore(observe, max_paths=budget):
        if o.exc is not None:
            if isinstance(o.exc, SymbolicConcretisation):
                res.append(harness_error(f"concretisation in solve: {o.exc}", item=tag))
            elif type(o.exc).__name__ in ("TypeError", "AttributeError", "NameError", "KeyError", "IndexError", "UnboundLocalError", "AssertionError"):
                # not one of the library's own errors: most likely the harness (never skipped silently)
                res.append(harness_error(f"solve raises {type(o.exc).__name__}: {o.exc}", item=tag))
            continue
        sol = o.solution
        if not sol.values or sol.objective_value is None:
            continue
        n += 1
        route = "lp" if o.lcalls and not o.mcalls else "nlp"
        payload = dict(kind="objective", model=K.enc(model), method=method, labels=[list(l) for l in labels], route=route, hist=hist)
        # structure (once per distinct key set)
        keys = list(sol.values.keys())
        pv = [v.name for v in o.problem.variables]
        kk = (tuple(keys), tuple(pv))
        if kk not in seen:
            seen.add(kk)
            ref = Ref({**{n_: 1.0 for n_ in allv}}, diff=0)
            ref.S(model["obj"])
            for kind, l, r in model["cons"]:
                ref.S(l)
                ref.S(r)
            read = [x for x in names["vars"] if x in ref.read]
            if keys != pv or len(set(keys)) != len(keys):
                res.append(violation(f"C07|keys|{route}", f"{tag}: keys(values)={keys} but problem.variables={pv}", dict(payload, kind="keys")))
            elif any(x not in keys for x in read):
                res.append(violation(f"C07|keys-missing|{route}", f"{tag}: values lack {[x for x in read if x not in keys]}", dict(payload, kind="keys")))
            else:
                res.append(proved(f"{tag}: keys(values) == names(problem.variables) ⊇ variables read"))
        values = SV.complete_values(model, val, sol.values)
        if any(x not in values for x in names["vars"]):
            continue
        oref, dom = SV.ref_objective(model, values)
        if planted:
            oref = oref + 1.0
        res.append(K.decide(smt.eq(sol.objective_value, oref), pc, dom, f"{tag}: objective_value == objective(values) [{K.path_sig(labels)[:50]}]",
                            f"C07|{route}|objective-value|{model['sense']}", payload, allmodel, QT[_TIER]))
    res.append(dict(status="conformance", what=f"{tag}: {n} paths with values", points=0))
    return res


def check_handle(recipe):
    """Solution[handle] == reference array of values[...] (symbolic values)"""
    from optyx.solution import Solution, SolverStatus
    from vf.engine import smt
    from vf.engine.recipes import Build
    res = []
    names = free_names(recipe)
    val = K.sym_val(names["vars"])
    for prefetch in (0, 1, 2):
      for dec, labels, pc, got in K.explore(lambda: _get(recipe, val, prefetch), max_paths=20):
        ref = Ref(val, diff=0)
        want = getattr(ref, kind_of(recipe))(recipe)
        what = f"Solution[{K.shape(recipe, 4)}]" + (" after other views of the same containers were retrieved from the same Solution" if prefetch else "")
        payload = dict(kind="handle", recipe=K.enc(recipe), prefetch=prefetch)
        if isinstance(got, Exception):
            res.append(violation(f"C07|handle-raises|{K.shape(recipe, 4)}", f"{what} raises {type(got).__name__}: {got}", payload))
            continue
        got = np.asarray(got, dtype=object)
        if got.shape != want.shape:
            res.append(violation(f"C07|handle-shape|{K.shape(recipe, 4)}", f"{what}: shape {got.shape}, expected {want.shape}", payload))
            continue
        res.append(K.decide([smt.eq(a, b) for a, b in zip(got.reshape(-1), want.reshape(-1))], pc, [], what,
                            f"C07|handle-value|{K.shape(recipe, 4)}", payload, names["vars"], QT[_TIER]))
    return res


def _get(recipe, val, prefetch=False):
    from optyx.solution import Solution, SolverStatus
    b, h = K.build_recipe(recipe, val)
    sol = Solution(status=SolverStatus.OPTIMAL, objective_value=0.0, values=dict(val))
    if prefetch:
        # the SAME Solution object is first asked for sibling views of every declared container (whole, reversed,
        # whole-span slice, strided; rows / columns / transposes / flipped matrices): many of them print alike
        from optyx import MatrixVariable, VectorVariable
        for o in list(b.objs.values()):
            sibs = []
            try:
                if isinstance(o, VectorVariable):
                    sibs = [o, o[::-1], o[0:len(o)], o[::2], o[1:]] if len(o) > 1 else [o]
                elif isinstance(o, MatrixVariable):
                    sibs = [o, o[::-1, :], o[:, ::-1], o.T, o[0, :], o[:, 0], o[0, ::-1], o[0:1, :], o[:, 0:1]]
            except Exception:  # noqa: BLE001
                pass
            for sb in (sibs if prefetch == 1 else sibs[::-1]):
                try:
                    sol[sb]
                except Exception:  # noqa: BLE001
                    pass
    try:
        out = sol[h]
        first = h[0] if kind_of(recipe) == "V" else h[0, 0]
        _ = sol[first]
        return out
    except Exception as e:  # noqa: BLE001
        return e


def check(item):
    kind, payload = item
    if kind == "mm":
        m, meth = payload[:2]
        try:
            return check_mm(m, meth, hist=payload[2] if len(payload) > 2 else None)
        except Exception as e:  # noqa: BLE001
            import traceback
            return [harness_error(f"{type(e).__name__}: {e}", item=f"{m['tag']}/{meth}", tb=traceback.format_exc()[-1500:])]
    if kind == "handles":
        return K.safe_items(check_handle, payload)
    if kind == "twin":
        out = []
        ms = {m["tag"]: m for m in LM.solve_models("quick")}
        for tag, meth in (("nlp1-ge", "SLSQP"), ("lp1-ge", "auto")):
            rr = check_mm(ms[tag], meth, planted=True)
            if not any(x["status"] == "violation" for x in rr):
                out.append(harness_error(f"reachability twin not refuted: {tag}/{meth}"))
            else:
                out.append(dict(status="conformance", what=f"twin refuted {tag}/{meth}", points=1))
        return out
    raise ValueError(kind)


def replay(payload):
    from vf.props import c06
    if payload["kind"] == "handle":
        recipe = K.dec(payload["recipe"])
        names = free_names(recipe)
        import random
        rng = random.Random(3)
        val = {n: rng.uniform(-2, 2) for n in names["vars"]}
        got = _get(recipe, val, int(payload.get("prefetch") or 0))
        ref = Ref(val, diff=0)
        want = getattr(ref, kind_of(recipe))(recipe)
        if isinstance(got, Exception):
            return True, f"raises {got!r}"
        got = np.asarray(got, dtype=float)
        if got.shape != want.shape or not np.allclose(got, np.asarray(want, dtype=float)):
            return True, f"Solution[handle] = {got.tolist()} but values give {np.asarray(want, dtype=float).tolist()}"
        return False, "handle retrieves the right values"
    from fractions import Fraction
    import scipy.optimize
    import optyx.solvers.scipy_solver as ss
    model = K.dec(payload["model"])
    method = payload["method"]
    labels = [tuple(l) for l in payload["labels"]]
    vals = {k: float(Fraction(v)) for k, v in payload.get("values", {}).items()}
    names = LM.model_names(model)
    allv = names["vars"] + names["syms"] + names["params"]
    import random
    rng = random.Random(5)
    for attempt in range(6):
        val = {n: vals.get(n, 0.0) if attempt == 0 else rng.uniform(0.3, 1.7) for n in allv}
        xs = dict(vals) if attempt == 0 else {}
        sol, p = _scripted_solve(model, method, labels, val, xs, rng, hist=payload.get("hist"))
        if sol is None or not sol.values or sol.objective_value is None:
            continue
        if payload["kind"] == "keys":
            pv = [v.name for v in p.variables]
            return (list(sol.values) != pv), f"keys {list(sol.values)} vs variables {pv}"
        values = SV.complete_values(model, val, sol.values)
        try:
            oref, dom = SV.ref_objective(model, values)
        except Exception:  # noqa: BLE001
            continue
        if not K.in_dom(dom):
            continue
        if not K.close(float(sol.objective_value), float(oref), 1e-7, 1e-9):
            return True, f"objective_value={sol.objective_value!r} but objective(values)={float(oref)!r} at values {sol.values}, data { {k: val[k] for k in names['syms'] + names['params']} }"
    return False, "objective value consistent on replay"


def _scripted_solve(model, method, labels, val, xs, rng, hist=None):
    import types
    import warnings
    import scipy.optimize
    import optyx.solvers.scipy_solver as ss
    calls = {"m": 0, "lp": 0}

    def succ_for(k):
        for l in labels:
            if l[0] == "c" and l[1] == f"m{k}.success":
                return l[2] == 0
        return False

    def msg_for(k):
        parts = [l[1].split("~")[1].strip("'") for l in labels if l[0] == "c" and l[1].startswith(f"m{k}.msg~") and l[2] == 1]
        return " ".join(parts) if parts else "scripted reply"

    def fake_min(fun, x0, **kw):
        calls["m"] += 1
        k = calls["m"]
        x = np.array([xs.get(f"m{k}_x{i}", rng.uniform(0.3, 1.7)) for i in range(len(x0))])
        return types.SimpleNamespace(x=x, fun=fun(x), success=succ_for(k), message=msg_for(k), nit=1)

    def fake_lp(c, **kw):
        calls["lp"] += 1
        k = calls["lp"]
        st = 0
        for l in labels:
            if l[0] == "c" and l[1] == f"lp{k}.status":
                st = [0, 1, 2, 3, 4][l[2]]
        x = np.array([xs.get(f"lp{k}_x{i}", rng.uniform(0.3, 1.7)) for i in range(len(c))])
        return types.SimpleNamespace(x=x, fun=float(np.dot(c, x)), success=(st == 0), status=st, message="scripted", nit=1)

    if hist:
        p, b, finish = LM.build_model_staged(model, val, hist)
        import types as _t
        old_m, old_l = ss.minimize, scipy.optimize.linprog
        ss.minimize = lambda fun, x0, **kw: _t.SimpleNamespace(x=np.array(x0, dtype=float), fun=fun(np.array(x0, dtype=float)), success=False, message="stub", nit=0)
        scipy.optimize.linprog = lambda c, **kw: _t.SimpleNamespace(x=None, fun=None, success=False, status=4, message="stub", nit=0)
        import warnings as _w
        try:
            with _w.catch_warnings():
                _w.simplefilter("ignore")
                try:
                    p.solve(method=method)
                except Exception:  # noqa: BLE001
                    pass
        finally:
            ss.minimize, scipy.optimize.linprog = old_m, old_l
        finish()
    else:
        p, b = LM.build_model(model, val)
    old_m, old_l = ss.minimize, scipy.optimize.linprog
    ss.minimize, scipy.optimize.linprog = fake_min, fake_lp
    try:
        with warnings.catch_warnings():
            warnings.simplefilter("ignore")
            try:
                return p.solve(method=method), p
            except Exception:  # noqa: BLE001
                return None, p
    finally:
        ss.minimize, scipy.optimize.linprog = old_m, old_l
