"""C06 - a solution reported OPTIMAL is feasible.

The real Problem.solve runs against nondeterministic solver stubs: the reply of
scipy.optimize.minimize is an ARBITRARY point (free reals), success flag and
message (every substring test is a free Boolean); the stub deliberately does not
promise feasibility (SciPy documents none).  The explorer walks every branch of
the post-solve check, the SLSQP -> trust-constr retry and both status mappings.
On every path whose status is OPTIMAL z3 must prove that each user constraint
holds at Solution.values within the tolerance the code states
(1e-6 + 1e-6*max(1,|c|)) and that declared bounds hold.  LP route: under the
linprog contract (success => the PASSED constraints hold) OPTIMAL must imply the
USER's constraints."""
from __future__ import annotations

import numpy as np

from vf.props import common as K
from vf.props import lpmodels as LM
from vf.props import solving as SV
from vf.props.common import harness_error, inconclusive, proved, violation

ID = "C06"
LEVEL = "model_checking"
ITEM_BUDGET_S = {"quick": 600, "thorough": 1800}
QT = {"quick": 15000, "thorough": 30000}
_TIER = "quick"
ATOL = 1e-6
RTOL = 1e-6

META = dict(
    rule="one case = (model, method, explored path of solve() under an arbitrary solver reply); non-trivial = path ending OPTIMAL with at least one constraint or bound obligation decided",
    bounds={
        "quick": "33 models (0-3 constraints of each sense and orientation, bounds present/absent, scalar/vector/matrix, LP and NLP) x 10 methods {auto, linprog, highs, highs-ds, highs-ipm, SLSQP, trust-constr, L-BFGS-B, BFGS, Nelder-Mead}; all data symbolic; path budget 1200 per (model, method)",
        "thorough": "adds n=3 vector and symmetric-matrix models; path budget 10000",
    },
    outside=["whether SciPy honours the stub contract S4/S5", "methods outside the 8 listed (bounds are not passed to them)", "user-supplied tol (default tolerance only)", "rounding (S7)"],
    assumptions=["S4: minimize reply = arbitrary x (within passed bounds for bounds-capable methods), arbitrary success/message, fun = fun(x)",
                 "S5: linprog success => status 0 and the passed A_ub/A_eq/bounds hold at x", "S1", "S2", "S7"],
    exhaustive_within_bounds=True,
)


def worker_init(tier, seed):
    global _TIER
    _TIER = tier


def items(tier, seed):
    ms = LM.solve_models(tier)
    its = [("twin", 0)]
    for m in ms:
        for meth in LM.METHODS + LM.EXTRA_METHODS:
            its.append(("mm", (m, meth)))
    # the solve under test as the SECOND solve of a problem object edited in between
    hmeths = ["auto"] if tier == "quick" else ["auto", "SLSQP", "trust-constr", "L-BFGS-B", "BFGS"]
    for im, m in enumerate(LM.solve_models(tier)):
        if tier == "quick" and im % 3 != 1:
            continue
        for h in LM.HISTS:
            if h in ("add-last", "add-last-list", "readd-same-objective") and not m["cons"]:
                continue
            for meth in hmeths:
                its.append(("mm", (m, meth, h)))
    its.sort(key=lambda it: -(len(it[1][0]["cons"]) * 10 + (5 if it[1][1] in ("SLSQP", "auto") else 0)) if it[0] == "mm" else -1000)
    return its


def _tol(v):
    a = abs(v)
    from vf.engine.sym import SReal, SBool
    import z3
    t = K_term(a)
    return ATOL + RTOL * SReal(z3.If(t > 1, t, z3.RealVal(1)))


def K_term(x):
    from vf.engine.sym import term
    return term(x)


def check_mm(model, method, planted=False, hist=None):
    from vf.engine import smt
    from vf.engine.sym import SReal, SymbolicConcretisation
    res = []
    names = LM.model_names(model)
    allv = names["vars"] + names["syms"] + names["params"]
    val = K.sym_val(allv)
    tag = f"{model['tag']}/{method}" + (f"/after {hist}" if hist else "")
    budget = 1200 if _TIER == "quick" else 10000
    observe = (lambda: SV.solve_observe(model, val, method)) if hist is None else (lambda: SV.solve_observe_hist(model, val, method, hist))
    n_opt = 0
    for dec, labels, pc, o in K.explore(observe, max_paths=budget):
        if o.exc is not None:
            if isinstance(o.exc, SymbolicConcretisation):
                res.append(harness_error(f"concretisation in solve: {o.exc}", item=tag))
            elif type(o.exc).__name__ in ("TypeError", "AttributeError", "NameError", "KeyError", "IndexError", "UnboundLocalError", "AssertionError"):
                # not one of the library's own errors: most likely the harness (never skipped silently)
                res.append(harness_error(f"solve raises {type(o.exc).__name__}: {o.exc}", item=tag))
            continue  # raising (e.g. NonLinearError for linprog on an NLP) is not an OPTIMAL answer
        sol = o.solution
        if sol.status.name != "OPTIMAL":
            continue
        n_opt += 1
        psig = K.path_sig(labels)
        route = "lp" if o.lcalls and not o.mcalls else "nlp"
        values = SV.complete_values(model, val, sol.values)
        mnames = [n for n in names["vars"]]
        missing = [n for n in mnames if n not in sol.values and _mentioned(model, n)]
        # constraints
        allmodel = allv + [f"m{k}_x{i}" for k in (1, 2, 3) for i in range(12)] + [f"lp{k}_x{i}" for k in (1, 2) for i in range(12)]
        payload = dict(kind="optimal", model=K.enc(model), method=method, labels=[list(l) for l in labels], route=route, hist=hist)
        for k, (sense, v, dom) in enumerate(SV.user_constraint_values(model, values)):
            tol = _tol(v)
            if planted:
                tol = tol - 1.0
            claim = (v <= tol) if sense == "<=" else ((v <= tol) & (v >= -tol))
            msg = [l[1].split("~")[1] for l in labels if l[0] == "c" and "~" in l[1] and l[2] == 1]
            sig = f"C06|{route}|infeasible-optimal|success={_success(labels)}|msg:{'+'.join(sorted(msg))}"
            res.append(K.decide(claim, pc, dom, f"{tag}: OPTIMAL => constraint {k} within tolerance [{psig[:60]}]", sig, payload, allmodel, QT[_TIER]))
        # bounds
        claims = []
        for n in sol.values:
            lb, ub = LM.declared_bounds(model, n, val)
            x = sol.values[n]
            if lb is not None:
                claims.append(x >= lb - ATOL)
            if ub is not None:
                claims.append(x <= ub + ATOL)
        if claims:
            res.append(K.decide(claims, pc, [], f"{tag}: OPTIMAL => bounds hold [{psig[:60]}]", f"C06|{route}|bounds-violated-optimal|{method}", payload, allmodel, QT[_TIER]))
    res.append(dict(status="conformance", what=f"{tag}: {n_opt} OPTIMAL paths", points=0))
    return res


def _success(labels):
    s = [l for l in labels if l[0] == "c" and l[1].endswith(".success")]
    return "".join("T" if l[2] == 0 else "F" for l in s)


def _mentioned(model, n):
    return True


def check(item):
    kind, payload = item
    if kind == "mm":
        m, meth = payload[:2]
        try:
            return check_mm(m, meth, hist=payload[2] if len(payload) > 2 else None)
        except Exception as e:  # noqa: BLE001
            import traceback
            return [harness_error(f"{type(e).__name__}: {e}", item=f"{m['tag']}/{meth}", tb=traceback.format_exc()[-1500:])]
    if kind == "twin":
        out = []
        ms = {m["tag"]: m for m in LM.solve_models("quick")}
        for tag, meth in (("nlp1-ge", "SLSQP"), ("lp1-ge", "auto")):
            rr = check_mm(ms[tag], meth, planted=True)
            if not any(x["status"] == "violation" for x in rr):
                out.append(harness_error(f"reachability twin not refuted: {tag}/{meth}"))
            else:
                out.append(dict(status="conformance", what=f"twin refuted {tag}/{meth}", points=1))
        return out
    raise ValueError(kind)


# --------------------------------------------------------------------------
# replay: scripted reply through the same seam, concrete floats, real code
# --------------------------------------------------------------------------
class _ScriptedMsg(str):
    pass


def replay(payload):
    from fractions import Fraction
    import scipy.optimize
    import optyx.solvers.scipy_solver as ss
    from optyx.solution import SolverStatus
    model = K.dec(payload["model"])
    method = payload["method"]
    labels = [tuple(l) for l in payload["labels"]]
    vals = {k: float(Fraction(v)) for k, v in payload.get("values", {}).items()}
    names = LM.model_names(model)
    allv = names["vars"] + names["syms"] + names["params"]
    val = {n: vals.get(n, 0.0) for n in allv}
    calls = {"m": 0, "lp": 0}

    def msg_for(k):
        parts = [l[1].split("~")[1].strip("'") for l in labels if l[0] == "c" and l[1].startswith(f"m{k}.msg~") and l[2] == 1]
        return " ".join(parts) if parts else "scripted reply"

    def succ_for(k):
        for l in labels:
            if l[0] == "c" and l[1] == f"m{k}.success":
                return l[2] == 0
        return False

    def fake_min(fun, x0, **kw):
        calls["m"] += 1
        k = calls["m"]
        n = len(x0)
        x = np.array([vals.get(f"m{k}_x{i}", 0.0) for i in range(n)])
        import types
        return types.SimpleNamespace(x=x, fun=fun(x), success=succ_for(k), message=msg_for(k), nit=1)

    def fake_lp(c, **kw):
        calls["lp"] += 1
        k = calls["lp"]
        n = len(c)
        st = 0
        for l in labels:
            if l[0] == "c" and l[1] == f"lp{k}.status":
                st = [0, 1, 2, 3, 4][l[2]]
        x = np.array([vals.get(f"lp{k}_x{i}", 0.0) for i in range(n)])
        import types
        return types.SimpleNamespace(x=x, fun=float(np.dot(c, x)), success=(st == 0), status=st, message="scripted", nit=1)

    if payload.get("hist"):
        p, b, finish = LM.build_model_staged(model, val, payload["hist"])
        import types as _t
        old_m, old_l = ss.minimize, scipy.optimize.linprog
        ss.minimize = lambda fun, x0, **kw: _t.SimpleNamespace(x=np.array(x0, dtype=float), fun=fun(np.array(x0, dtype=float)), success=False, message="stub", nit=0)
        scipy.optimize.linprog = lambda c, **kw: _t.SimpleNamespace(x=None, fun=None, success=False, status=4, message="stub", nit=0)
        import warnings as _w
        try:
            with _w.catch_warnings():
                _w.simplefilter("ignore")
                try:
                    p.solve(method=method)
                except Exception:  # noqa: BLE001
                    pass
        finally:
            ss.minimize, scipy.optimize.linprog = old_m, old_l
        finish()
    else:
        p, b = LM.build_model(model, val)
    old_m, old_l = ss.minimize, scipy.optimize.linprog
    ss.minimize, scipy.optimize.linprog = fake_min, fake_lp
    import warnings
    try:
        with warnings.catch_warnings():
            warnings.simplefilter("ignore")
            sol = p.solve(method=method)
    finally:
        ss.minimize, scipy.optimize.linprog = old_m, old_l
    if sol.status != SolverStatus.OPTIMAL:
        return False, f"status on replay: {sol.status}"
    worst = 0.0
    detail = ""
    for (kind, lhs, rhs), c in zip(model["cons"], p.constraints):
        v = c.violation(sol.values)
        cv = abs(c.evaluate(sol.values))
        if v > ATOL + RTOL * max(1.0, cv) and v > worst:
            worst, detail = v, f"constraint {kind} violated by {v!r}"
    for var in p.variables:
        x = sol.values[var.name]
        if var.lb is not None and x < var.lb - ATOL:
            worst, detail = max(worst, var.lb - x), f"{var.name}={x} below lb={var.lb}"
        if var.ub is not None and x > var.ub + ATOL:
            worst, detail = max(worst, x - var.ub), f"{var.name}={x} above ub={var.ub}"
    if worst > 0:
        real = _real_scipy_witness() if payload.get("route") == "nlp" else ""
        return True, f"status OPTIMAL with {detail} at values {sol.values} (scripted reply: success={succ_for(1)}, message={msg_for(1)!r}){real}"
    return False, "OPTIMAL and feasible on replay"


def _real_scipy_witness():
    """does the real SciPy produce this reply class?  (recorded, not deciding)"""
    try:
        import warnings
        from optyx import Problem, Variable
        from optyx.solution import SolverStatus
        x = Variable("x")
        with warnings.catch_warnings():
            warnings.simplefilter("ignore")
            s = Problem().minimize(x ** 2).subject_to(x >= 1).subject_to(x <= 0).solve(method="SLSQP")
        bad = s.status == SolverStatus.OPTIMAL
        return f"; real SciPy on min x^2 s.t. x>=1, x<=0 (SLSQP): status={s.status.name}, message={s.message!r}" + (" -> reproduces with the real solver" if bad else "")
    except Exception as e:  # noqa: BLE001
        return f"; real-SciPy witness failed: {e}"
