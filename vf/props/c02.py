"""C02 - symbolic gradient is the true partial derivative.

For every recipe e in a bounded family and every variable w (occurring or
not) the real `optyx.core.autodiff.gradient(e, w)` is executed on the tree
built through the public API; its result is evaluated on a symbolic point and
z3 must prove, under the regularity conditions of the reference formula,

    gradient(e, w).evaluate(p) == d[[e]]/dw (p)      for all p, all constants

where the right-hand side comes from dual numbers over the reference
interpreter (independent of optyx's rules and simplifiers)."""
from __future__ import annotations

import os
import random

import numpy as np

from vf.engine.recipes import Build, Ref, declare, free_names, show
from vf.props import common as K
from vf.props.common import harness_error, inconclusive, proved, violation

ID = "C02"
LEVEL = "model_checking"
ITEM_BUDGET_S = {"quick": 240, "thorough": 900}
QT = {"quick": 15000, "thorough": 60000}
_TIER = "quick"

META = dict(
    rule="one case = (recipe, wrt variable, explored path); non-trivial = at least one validity query was decided for the recipe",
    bounds={
        "quick": "recipes of depth <= 2 over {x,y,z, numbers, symbolic constant c, Parameter p}, all 19 unary ops, 5 binary ops, every vector/matrix reduction node with n=3 (2x2 matrices); wrt = every mentioned variable + one that does not occur; z3 timeout 15 s/query",
        "thorough": "adds depth-3 compositions, vector sizes 1,2,4,5 and VERIF_SEED random depth-3 recipes; z3 timeout 60 s/query",
    },
    outside=["floating-point rounding/overflow (S7: exact reals)", "points outside dom (non-differentiable points)",
             "recipes beyond the stated depth/size", "array-valued Constant/Parameter"],
    assumptions=["S1 float shim", "S2 numpy allocation -> object arrays", "S6 elementary functions are uninterpreted functions with instantiated identities",
                 "S7 floats are exact rationals", "evaluate() of the derivative tree is the observation (C01 ties evaluate to the formula)"],
    technique="symbolic execution of optyx.core.autodiff.gradient on symbolic points; dual-number oracle; z3 validity queries (cvc5 on unknown)",
    exhaustive_within_bounds=True,
)


def worker_init(tier, seed):
    global _TIER
    _TIER = tier


def items(tier, seed):
    rs = K.scalar_family(tier)
    if tier == "thorough":
        rs += K.random_recipes(seed, 400, 3)
    its = [("conf", seed)]
    its += [("twin", 0)]
    its += [("rs", ch) for ch in K.chunks(rs, 6)]
    return its


def _grad_points(recipe, val, names):
    """run the real code on one path; returns list of (wrt, value|exc)"""
    from optyx import Variable
    from optyx.core.autodiff import gradient
    from vf.engine.sym import SymbolicConcretisation
    b = Build(val)
    for d in declare(recipe):
        (b.V if d[0] == "vec" else b.M)(d)
    e = b.S(recipe)
    point = {n: val[n] for n in names["vars"]}
    out = []
    for w in names["vars"] + ["__unused"]:
        wv = b.S(("var", w)) if w != "__unused" else Variable("__unused")
        try:
            g = gradient(e, wv)
            gv = g.evaluate(point)
            out.append((w, gv, None))
        except SymbolicConcretisation as ex:
            out.append((w, None, ex))
        except Exception as ex:  # noqa: BLE001
            out.append((w, None, ex))
    return out


def check_recipe(recipe, planted=False):
    from vf.engine import smt
    from vf.engine.sym import SymbolicConcretisation
    res = []
    names = free_names(recipe)
    allv = names["vars"] + names["syms"] + names["params"]
    val = K.sym_val(allv)
    try:
        paths = list(K.explore(lambda: _grad_points(recipe, val, names), max_paths=600))
    except SymbolicConcretisation as e:
        return [harness_error(f"concretisation: {e}", item=show(recipe))]
    for dec, labels, pc, out in paths:
        for w, gv, exc in out:
            if exc is not None:
                if isinstance(exc, SymbolicConcretisation):
                    # only acceptable where the formula itself is undefined (e.g. log(0.0))
                    ref = Ref(K.dual_val(val, w if w != "__unused" else names["vars"][0]), diff=1)
                    try:
                        ref.S(recipe)
                        vac = smt.satisfiable(list(pc) + ref.dom) == "unsat"
                    except SymbolicConcretisation:
                        vac = True
                    if vac:
                        res.append(proved(f"vacuous (formula undefined everywhere on this path): {show(recipe)[:80]}"))
                    else:
                        res.append(harness_error(f"concretisation: {exc}", item=show(recipe)))
                    continue
                sig = f"C02|gradient-raises|{type(exc).__name__}|{K.shape(recipe, 3)}"
                res.append(violation(sig, f"gradient({show(recipe)}, {w}) raises {type(exc).__name__}: {str(exc)[:120]}",
                                     dict(kind="raises", recipe=K.enc(recipe), wrt=w, values={})))
                continue
            if w == "__unused":
                oracle = 0.0
                dom = []
            else:
                ref = Ref(K.dual_val(val, w), diff=1)
                oracle = K.tangent(ref.S(recipe))
                dom = ref.dom
            if planted:
                oracle = oracle + 1.0
            v = smt.valid(smt.eq(gv, oracle), pc, dom, timeout_ms=QT[_TIER])
            if v.status == "unsat":
                res.append(proved(f"d/d{w} {show(recipe)[:80]}"))
            elif v.status == "sat":
                mv = smt.model_values(v.model, allv)
                sig = f"C02|wrong-derivative|{K.shape(recipe, 3)}"
                res.append(violation(sig, f"gradient({show(recipe)}, {w}) differs from d/d{w}",
                                     dict(kind="value", recipe=K.enc(recipe), wrt=w, values={k: str(x) for k, x in mv.items()})))
            else:
                res.append(inconclusive(f"unknown: d/d{w} {show(recipe)}"))
    return res


def check(item):
    kind, payload = item
    if kind == "rs":
        out = []
        for r in payload:
            try:
                out += check_recipe(r)
            except Exception as e:  # noqa: BLE001
                import traceback
                out.append(harness_error(f"{type(e).__name__}: {e}", item=show(r), tb=traceback.format_exc()[-1200:]))
        return out
    if kind == "twin":
        # reachability twin: a planted wrong oracle must be refuted, dom must be satisfiable
        from vf.engine import smt
        out = []
        for r in [("bin", "*", K.X, K.Y), ("un", "log", K.X), ("dot", K.V3, K.V3)]:
            rr = check_recipe(r, planted=True)
            if not any(x["status"] == "violation" for x in rr):
                out.append(harness_error(f"reachability twin not refuted for {r}"))
            else:
                out.append(dict(status="conformance", what=f"twin refuted {r}", points=1))
            names = free_names(r)
            val = K.sym_val(names["vars"] + names["syms"] + names["params"])
            ref = Ref(K.dual_val(val, names["vars"][0]), diff=1)
            ref.S(r)
            if smt.satisfiable(ref.dom) != "sat":
                out.append(harness_error(f"dom unsatisfiable for {r}"))
        return out
    if kind == "conf":
        return conformance(payload)
    raise ValueError(kind)


def conformance(seed):
    """engine conformance: symbolic derivative instantiated at rational points
    == concrete float execution of the real code (unpatched semantics)"""
    from vf.engine.evalterm import eval_term
    from vf.engine.sym import term
    rng = random.Random(1234 + seed)
    fam = K.scalar_family("quick")
    picks = rng.sample(fam, 40)
    out = []
    pts = 0
    for r in picks:
        names = free_names(r)
        allv = names["vars"] + names["syms"] + names["params"]
        val = K.sym_val(allv)
        try:
            paths = list(K.explore(lambda: _grad_points(r, val, names), max_paths=50))
        except BaseException:  # noqa: BLE001
            continue
        point = {n: round(rng.uniform(0.2, 0.9), 3) for n in allv}
        for dec, labels, pc, outp in paths:
            env = dict(point)
            try:
                if not all(eval_term(c, env) for c in pc):
                    continue
            except Exception:
                continue
            conc = _concrete_grad(r, point, names)
            for (w, gv, exc), (w2, cv, exc2) in zip(outp, conc):
                if exc is not None or exc2 is not None:
                    if (exc is None) != (exc2 is None):
                        out.append(harness_error(f"conformance: exception mismatch {r} {exc!r} vs {exc2!r}"))
                    continue
                try:
                    sv = eval_term(term(gv), env)
                except Exception as e:  # noqa: BLE001
                    out.append(harness_error(f"conformance: cannot evaluate term for {r}: {e}"))
                    continue
                pts += 1
                if not K.close(sv, cv, 1e-8, 1e-9) and np.isfinite(cv) and np.isfinite(sv):
                    out.append(harness_error(f"conformance mismatch {r} d/d{w}: symbolic {sv} vs concrete {cv}"))
    out.append(dict(status="conformance", what="engine conformance", points=pts))
    return out


def _concrete_grad(recipe, point, names):
    """concrete execution with the shims switched off"""
    from vf.engine import npshim
    npshim.uninstall()
    try:
        npshim.clear_optyx_caches()
        with np.errstate(all="ignore"):
            return _grad_points(recipe, dict(point), names)
    finally:
        npshim.install()
        npshim.clear_optyx_caches()


# --------------------------------------------------------------------------
# concrete replay (fresh interpreter, no shims)
# --------------------------------------------------------------------------
def replay(payload):
    recipe = K.dec(payload["recipe"])
    w = payload["wrt"]
    names = free_names(recipe)
    allv = names["vars"] + names["syms"] + names["params"]
    if payload["kind"] == "raises":
        pt = {n: 0.7 for n in allv}
        out = _grad_points(recipe, pt, names)
        for ww, gv, exc in out:
            if ww == w and exc is not None:
                return True, f"gradient raises {type(exc).__name__}: {exc}"
        return False, "no exception on replay"
    for pt in K.candidate_points(allv, payload.get("values", {}), 7):
        try:
            with np.errstate(all="ignore"):
                got = [g for ww, g, exc in _grad_points(recipe, pt, names) if ww == w]
                if not got or got[0] is None:
                    continue
                if w == "__unused":
                    ref, ok = 0.0, True
                else:
                    r, ok = K.concrete_ref(recipe, pt, diff=1, wrt=w)
                    ref = K.tangent(r)
            if not ok:
                continue
            g = float(np.asarray(got[0]).item())
            if not (np.isfinite(g) and np.isfinite(ref)):
                continue
            if not K.close(g, ref, 1e-6, 1e-8):
                return True, f"at {pt}: gradient={g!r} reference={float(ref)!r}"
        except Exception as e:  # noqa: BLE001
            last = e
            continue
    return False, "no numeric difference reproduced"
