"""C02 - symbolic gradient is the true partial derivative.

For every recipe e in a bounded family and every variable w (occurring or
not) the real `optyx.core.autodiff.gradient(e, w)` is executed on the tree
built through the public API; its result is evaluated on a symbolic point and
z3 must prove, under the regularity conditions of the reference formula,

    gradient(e, w).evaluate(p) == d[[e]]/dw (p)      for all p, all constants

where the right-hand side comes from dual numbers over the reference
interpreter (independent of optyx's rules and simplifiers)."""
from __future__ import annotations

import os
import random

import numpy as np

from vf.engine.recipes import Build, Ref, declare, free_names, show
from vf.props import common as K
from vf.props.common import harness_error, inconclusive, proved, violation

ID = "C02"
LEVEL = "model_checking"
ITEM_BUDGET_S = {"quick": 240, "thorough": 900}
QT = {"quick": 15000, "thorough": 20000}
_TIER = "quick"

META = dict(
    rule="one case = (recipe, wrt variable, explored path); non-trivial = at least one validity query was decided for the recipe",
    bounds={
        "quick": "recipes of depth <= 2 over {x,y,z, numbers, symbolic constant c, Parameter p}, all 19 unary ops, 5 binary ops, every vector/matrix reduction node with n=3 (2x2 matrices); wrt = every mentioned variable + one that does not occur; z3 timeout 15 s/query",
        "thorough": "adds depth-3 compositions, vector sizes 1,2,4,5 and VERIF_SEED random depth-3 recipes; z3 timeout 20 s/query",
    },
    outside=["floating-point rounding/overflow (S7: exact reals)", "points outside dom (non-differentiable points)",
             "recipes beyond the stated depth/size", "array-valued Constant/Parameter"],
    assumptions=["S1 float shim", "S2 numpy allocation -> object arrays", "S6 elementary functions are uninterpreted functions with instantiated identities",
                 "S7 floats are exact rationals", "evaluate() of the derivative tree is the observation (C01 ties evaluate to the formula)"],
    technique="symbolic execution of optyx.core.autodiff.gradient on symbolic points; dual-number oracle; z3 validity queries (cvc5 on unknown)",
    exhaustive_within_bounds=True,
)


def worker_init(tier, seed):
    global _TIER
    _TIER = tier


def items(tier, seed):
    rs = K.scalar_family(tier)
    if tier == "thorough":
        rs += K.random_recipes(seed, 400, 3)
    its = [("conf", seed)]
    its += [("twin", 0)]
    its += [("rs", ch) for ch in K.chunks(rs, 6)]
    its += [("t1", ch) for ch in K.chunks(t1_cases(), 12)]
    return its + K.touched_items(its, 3, ("rs",))


def _grad_points(recipe, val, names):
    """run the real code on one path; returns list of (wrt, value|exc)"""
    from optyx import Variable
    from optyx.core.autodiff import gradient
    from vf.engine.sym import SymbolicConcretisation
    b = Build(val)
    for d in declare(recipe):
        (b.V if d[0] == "vec" else b.M)(d)
    e = b.S(recipe)
    if K.TOUCH:
        K.touch(e)
    point = {n: val[n] for n in names["vars"]}
    out = []
    grads = []
    def one(w, wv, keep=True):
        try:
            g = gradient(e, wv)
            if keep:
                grads.append((w, g))
            gv = g.evaluate(point)
            out.append((w, gv, None))
        except SymbolicConcretisation as ex:
            out.append((w, None, ex))
        except Exception as ex:  # noqa: BLE001
            out.append((w, None, ex))

    for i, w in enumerate(names["vars"] + ["__unused"]):
        wv = b.S(("var", w)) if w != "__unused" else Variable("__unused")
        # the variable to differentiate by, also given as an EQUAL BUT DISTINCT object (a handle re-created from its
        # name, as from a solution's keys): variables are identified by name.  Alternately before / after the original.
        twin = Variable(w, lb=getattr(wv, "lb", None), ub=getattr(wv, "ub", None))
        if i % 2 == 0:
            one(w + "@twin", twin, keep=False)
            one(w, wv)
        else:
            one(w, wv)
            one(w + "@twin", twin, keep=False)
    if b.params and all(n + "'" in val for n in b.params):
        # the derivative expression is of the expression AS IT IS NOW: parameters updated after
        # differentiation contribute their new value (and 0 / 1 simplifications must not have used the old one)
        for n, p_ in b.params.items():
            p_.set(val[n + "'"])
        for w, g in grads:
            try:
                out.append((w + "@p'", g.evaluate(point), None))
            except Exception as ex:  # noqa: BLE001
                out.append((w + "@p'", None, ex))
    return out


def check_recipe(recipe, planted=False):
    from vf.engine import smt
    from vf.engine.sym import SymbolicConcretisation
    res = []
    names = free_names(recipe)
    allv = names["vars"] + names["syms"] + names["params"] + [n + "'" for n in names["params"]]
    val0 = K.sym_val(allv)
    val1 = {**val0, **{n: val0[n + "'"] for n in names["params"]}}
    try:
        paths = list(K.explore(lambda: _grad_points(recipe, val0, names), max_paths=600))
    except SymbolicConcretisation as e:
        return [harness_error(f"concretisation: {e}", item=show(recipe))]
    for dec, labels, pc, out in paths:
        for w_, gv, exc in out:
            w, val = (w_[:-3], val1) if w_.endswith("@p'") else (w_, val0)
            if w.endswith("@twin"):
                w = w[:-5]
            if exc is not None:
                if isinstance(exc, SymbolicConcretisation):
                    # only acceptable where the formula itself is undefined (e.g. log(0.0))
                    ref = Ref(K.dual_val(val, w if w != "__unused" else names["vars"][0]), diff=1)
                    try:
                        ref.S(recipe)
                        vac = smt.satisfiable(list(pc) + ref.dom) == "unsat"
                    except SymbolicConcretisation:
                        vac = True
                    if vac:
                        res.append(proved(f"vacuous (formula undefined everywhere on this path): {show(recipe)[:80]}"))
                    else:
                        res.append(harness_error(f"concretisation: {exc}", item=show(recipe)))
                    continue
                sig = f"C02|gradient-raises|{type(exc).__name__}|{K.shape(recipe, 3)}"
                res.append(violation(sig, f"gradient({show(recipe)}, {w}) raises {type(exc).__name__}: {str(exc)[:120]}",
                                     dict(kind="raises", recipe=K.enc(recipe), wrt=w_, values={})))
                continue
            if w == "__unused":
                oracle = 0.0
                dom = []
            else:
                ref = Ref(K.dual_val(val, w), diff=1)
                oracle = K.tangent(ref.S(recipe))
                dom = ref.dom
                if val is val1:
                    # the tree was also built and differentiated at the old parameter values: stay inside the domain there
                    ref0 = Ref(K.dual_val(val0, w), diff=1)
                    ref0.S(recipe)
                    dom = dom + ref0.dom
            if planted:
                oracle = oracle + 1.0
            v = smt.valid(smt.eq(gv, oracle), pc, dom, timeout_ms=QT[_TIER])
            if v.status == "unsat":
                res.append(proved(f"d/d{w_} {show(recipe)[:80]}"))
            elif v.status == "sat":
                mv = smt.model_values(v.model, allv)
                sig = f"C02|wrong-derivative|{K.shape(recipe, 3)}"
                pl_ = dict(kind="value", recipe=K.enc(recipe), wrt=w_, values={k: str(x) for k, x in mv.items()})
                if v.alt_model is not None:
                    pl_["values_alt"] = {k: str(x) for k, x in smt.model_values(v.alt_model, allv).items()}
                rv_ = violation(sig, f"gradient({show(recipe)}, {w}) differs from d/d{w}" + (" after the parameters were updated" if val is val1 else ""), pl_)
                if v.tiny:
                    rv_["rounding_level"] = True
                res.append(rv_)
            else:
                res.append(inconclusive(f"unknown: d/d{w} {show(recipe)}"))
    return res


def check(item):
    kind, payload = item
    if kind == "touched":
        return K.run_touched(check, payload)
    if kind == "rs":
        return K.safe_items(check_recipe, payload, show)
    if kind == "twin":
        # reachability twin: a planted wrong oracle must be refuted, dom must be satisfiable
        from vf.engine import smt
        out = []
        for r in [("bin", "*", K.X, K.Y), ("un", "log", K.X), ("dot", K.V3, K.V3)]:
            rr = check_recipe(r, planted=True)
            if not any(x["status"] == "violation" for x in rr):
                out.append(harness_error(f"reachability twin not refuted for {r}"))
            else:
                out.append(dict(status="conformance", what=f"twin refuted {r}", points=1))
            names = free_names(r)
            val = K.sym_val(names["vars"] + names["syms"] + names["params"])
            ref = Ref(K.dual_val(val, names["vars"][0]), diff=1)
            ref.S(r)
            if smt.satisfiable(ref.dom) != "sat":
                out.append(harness_error(f"dom unsatisfiable for {r}"))
        return out
    if kind == "conf":
        return conformance(payload)
    if kind == "t1":
        return K.safe_items(check_t1, payload)
    raise ValueError(kind)


def conformance(seed):
    """engine conformance: symbolic derivative instantiated at rational points
    == concrete float execution of the real code (unpatched semantics)"""
    from vf.engine.evalterm import eval_term
    from vf.engine.sym import term
    rng = random.Random(1234 + seed)
    fam = K.scalar_family("quick")
    picks = rng.sample(fam, 40)
    out = []
    pts = 0
    for r in picks:
        names = free_names(r)
        allv = names["vars"] + names["syms"] + names["params"]
        val = K.sym_val(allv)
        try:
            paths = list(K.explore(lambda: _grad_points(r, val, names), max_paths=50))
        except BaseException:  # noqa: BLE001
            continue
        point = {n: round(rng.uniform(0.2, 0.9), 3) for n in allv}
        for dec, labels, pc, outp in paths:
            env = dict(point)
            try:
                if not all(eval_term(c, env) for c in pc):
                    continue
            except Exception:
                continue
            conc = _concrete_grad(r, point, names)
            for (w, gv, exc), (w2, cv, exc2) in zip(outp, conc):
                if exc is not None or exc2 is not None:
                    if (exc is None) != (exc2 is None):
                        out.append(harness_error(f"conformance: exception mismatch {r} {exc!r} vs {exc2!r}"))
                    continue
                try:
                    sv = eval_term(term(gv), env)
                except Exception as e:  # noqa: BLE001
                    out.append(harness_error(f"conformance: cannot evaluate term for {r}: {e}"))
                    continue
                pts += 1
                if not K.close(sv, cv, 1e-8, 1e-9) and np.isfinite(cv) and np.isfinite(sv):
                    out.append(harness_error(f"conformance mismatch {r} d/d{w}: symbolic {sv} vs concrete {cv}"))
    out.append(dict(status="conformance", what="engine conformance", points=pts))
    return out


def _concrete_grad(recipe, point, names):
    """concrete execution with the shims switched off"""
    from vf.engine import npshim
    npshim.uninstall()
    try:
        npshim.clear_optyx_caches()
        with np.errstate(all="ignore"):
            return _grad_points(recipe, dict(point), names)
    finally:
        npshim.install()
        npshim.clear_optyx_caches()


# --------------------------------------------------------------------------
# concrete replay (fresh interpreter, no shims)
# --------------------------------------------------------------------------
def replay_t1(payload):
    """concrete floats through the same one-step harness"""
    import ast
    import random
    case = ast.literal_eval(payload["case"])
    rng = random.Random(2)
    global K
    for attempt in range(12):
        vals = {}

        class V(dict):
            def __missing__(self, k):
                self[k] = rng.uniform(0.3, 0.9) if attempt else 0.5
                return self[k]
        import vf.props.common as KK
        orig = KK.sym_val
        KK.sym_val = lambda names: V({n: rng.uniform(0.3, 0.9) for n in names})
        try:
            import vf.engine.sym as S_
            from vf.engine import smt as smt_
            captured = []
            orig_decide = KK.decide
            orig_explore = KK.explore

            def fake_explore(fn, **kw):
                yield [], [], [], fn()

            def fake_decide(claim, pc, dom, what, sig, pl, allv, qt, weak_sat=False):
                captured.append((what, pl))
                return dict(status="proved", what=what)
            KK.explore = fake_explore
            real_eq = smt_.eq
            diffs = []

            def num_eq(a, b):
                try:
                    fa, fb = float(np.asarray(a).item()), float(np.asarray(b).item())
                    if np.isfinite(fa) and np.isfinite(fb) and not K.close(fa, fb, 1e-6, 1e-8):
                        diffs.append((fa, fb))
                except Exception:  # noqa: BLE001
                    pass
                return True
            smt_.eq = num_eq
            KK.decide = fake_decide
            try:
                with np.errstate(all="ignore"):
                    r = check_t1(case)
            finally:
                smt_.eq = real_eq
                KK.decide = orig_decide
                KK.explore = orig_explore
            for x in r:
                if x["status"] == "violation" and payload["fn"] in x["what"]:
                    return True, x["what"]
            if diffs:
                return True, f"one-step rule {case}: gradient evaluates to {diffs[0][0]!r}, the chain rule gives {diffs[0][1]!r}"
        finally:
            KK.sym_val = orig
    return False, "no numeric difference reproduced"


def replay(payload):
    r_ = K.replay_touched(replay, payload)
    if r_ is not None:
        return r_
    if payload.get("kind") == "t1":
        return replay_t1(payload)
    recipe = K.dec(payload["recipe"])
    w = payload["wrt"]
    names = free_names(recipe)
    allv = names["vars"] + names["syms"] + names["params"] + [n + "'" for n in names["params"]]
    if payload["kind"] == "raises":
        pt = {n: 0.7 for n in allv}
        out = _grad_points(recipe, pt, names)
        for ww, gv, exc in out:
            if ww == w and exc is not None:
                return True, f"gradient raises {type(exc).__name__}: {exc}"
        return False, "no exception on replay"
    for pt in K.candidate_points(allv, payload.get("values", {}), 7):
        try:
            with np.errstate(all="ignore"):
                got = [g for ww, g, exc in _grad_points(recipe, pt, names) if ww == w]
                if not got or got[0] is None:
                    continue
                if w.startswith("__unused"):
                    ref, ok = 0.0, True
                elif w.endswith("@twin"):
                    r, ok = K.concrete_ref(recipe, pt, diff=1, wrt=w[:-5])
                    ref = K.tangent(r)
                elif w.endswith("@p'"):
                    r, ok = K.concrete_ref(recipe, {**pt, **{n: pt[n + "'"] for n in names["params"]}}, diff=1, wrt=w[:-3])
                    ok = ok and K.concrete_ref(recipe, pt, diff=1, wrt=w[:-3])[1]
                    ref = K.tangent(r)
                else:
                    r, ok = K.concrete_ref(recipe, pt, diff=1, wrt=w)
                    ref = K.tangent(r)
            if not ok:
                continue
            g = float(np.asarray(got[0]).item())
            if not (np.isfinite(g) and np.isfinite(ref)):
                continue
            if not K.close(g, ref, 1e-6, 1e-8):
                return True, f"at {pt}: gradient={g!r} reference={float(ref)!r}"
        except Exception as e:  # noqa: BLE001
            last = e
            continue
    return False, "no numeric difference reproduced"


# ==========================================================================
# T1: one inductive step per rule, children are OPAQUE leaves
# ==========================================================================
# An opaque leaf stands for an arbitrary sub-expression: its value is a free
# real a_k and its derivative (returned by a gradient rule registered through
# the public register_gradient hook) is, by explorer choice, Constant(0.0),
# Constant(1.0), Constant(c_k) with symbolic c_k, or another opaque leaf da_k.
# These four classes are exactly what the simplifiers (_is_zero, _is_one,
# isinstance Constant) can distinguish.  If the rule is right for all of them,
# it is right for every composition (the rule inspects its children only
# through these classes: stated assumption, complemented by the bounded
# compositions of T2).
_OPQ = {}


def _opaque_class():
    if "cls" in _OPQ:
        return _OPQ["cls"]
    from optyx.core.autodiff import register_gradient
    from optyx.core.expressions import Constant, Expression

    class Opaque(Expression):
        __slots__ = ("name", "value", "deriv")

        def __init__(self, name, value, deriv):
            self._hash = None
            self._degree = None
            self.name = name
            self.value = value
            self.deriv = deriv

        def evaluate(self, values):
            return self.value

        def get_variables(self):
            return set()

        def __repr__(self):
            return f"Opaque({self.name})"

    @register_gradient(Opaque)
    def _grad_opaque(expr, wrt):
        return expr.deriv

    _OPQ["cls"] = Opaque
    return Opaque


DKINDS = ["zero", "one", "const", "expr"]


def _leaf(name, dkind, val):
    """(optyx leaf, dual number for the oracle)"""
    from optyx.core.expressions import Constant
    from vf.engine.dual import Dual
    Opaque = _opaque_class()
    a = val[name]
    if dkind == "zero":
        d_expr, d = Constant(0.0), 0.0
    elif dkind == "one":
        d_expr, d = Constant(1.0), 1.0
    elif dkind == "const":
        d_expr, d = Constant(val["c_" + name]), val["c_" + name]
    else:
        d_expr, d = Opaque("d" + name, val["d_" + name], Constant(0.0)), val["d_" + name]
    return Opaque(name, a, d_expr), Dual(a, d)


def t1_cases():
    from vf.engine.recipes import ALL_UNARY
    cases = []
    for op in ("+", "-", "*", "/", "**"):
        for da in DKINDS:
            for db in DKINDS:
                cases.append(("bin", op, da, db))
    for n in (0, 1, 2, 3, -1, 0.5, 2.5, "sym"):
        for da in DKINDS:
            cases.append(("powc", n, da))
            cases.append(("cpow", n, da))
    for op in ALL_UNARY:
        for da in DKINDS:
            cases.append(("un", op, da))
    for node in ("lincomb", "vesum", "dot", "l2", "l1", "quad", "dotvv"):
        for combo in (("expr", "expr"), ("zero", "one"), ("const", "expr"), ("one", "one"), ("zero", "zero")):
            cases.append(("vec", node, combo))
    return cases


def check_t1(case):
    import numpy as np
    from optyx import Variable
    from optyx.core import autodiff as A
    from optyx.core.expressions import BinaryOp, Constant, UnaryOp
    from optyx.core.vectors import DotProduct, L1Norm, L2Norm, LinearCombination, VectorExpression, VectorExpressionSum
    from optyx.core.matrices import QuadraticForm
    from vf.engine import smt
    from vf.engine.dual import Dual
    from vf.engine.recipes import UNARY
    from vf.engine.sym import SReal, SymbolicConcretisation
    res = []
    names = ["a", "b", "e"]
    allv = names + ["c_" + n for n in names] + ["d_" + n for n in names] + ["n", "k0", "k1", "q00", "q01", "q10", "q11"]
    val = K.sym_val(allv)
    wrt = Variable("w")

    def build():
        kind = case[0]
        dom = []
        if kind == "bin":
            _, op, da, db = case
            (A_, a), (B_, b) = _leaf("a", da, val), _leaf("b", db, val)
            e = BinaryOp(A_, B_, op)
            if op == "/":
                dom.append(val["b"] != 0)
                o = a / b
            elif op == "**":
                dom.append(val["a"] > 0)
                o = a ** b
            else:
                o = {"+": a + b, "-": a - b, "*": a * b}[op]
        elif kind in ("powc", "cpow"):
            _, n, da = case
            (A_, a) = _leaf("a", da, val)
            nv = val["n"] if n == "sym" else n
            if kind == "powc":
                e = BinaryOp(A_, Constant(nv), "**")
                if n == "sym" or float(n) != int(float(n)):
                    dom.append(val["a"] > 0)
                elif n < 0:
                    dom.append(val["a"] != 0)
                o = a ** nv
            else:
                e = BinaryOp(Constant(nv), A_, "**")
                dom.append(nv > 0 if n == "sym" else True)
                if n != "sym" and n <= 0:
                    return None, None, None
                o = Dual(nv, 0.0) ** a
        elif kind == "un":
            _, op, da = case
            (A_, a) = _leaf("a", da, val)
            e = UnaryOp(A_, op)
            p = val["a"]
            if op in ("log", "log2", "log10", "sqrt"):
                dom.append(p > 0)
            elif op == "abs":
                dom.append(p != 0)
            elif op == "tan":
                dom.append(p.cos() != 0)
            elif op in ("asin", "acos", "atanh"):
                dom += [p > -1, p < 1]
            elif op == "acosh":
                dom.append(p > 1)
            o = -a if op == "neg" else abs(a) if op == "abs" else getattr(a, UNARY[op])()
        else:
            _, node, (d1, d2) = case
            (A_, a), (B_, b), (E_, ee) = _leaf("a", d1, val), _leaf("b", d2, val), _leaf("e", "expr", val)
            ve = VectorExpression([A_, B_])
            ve2 = VectorExpression([E_, A_])
            ks = np.array([val["k0"], val["k1"]], dtype=object)
            if node == "lincomb":
                e, o = LinearCombination(ks, ve), val["k0"] * a + val["k1"] * b
            elif node == "vesum":
                e, o = VectorExpressionSum(ve), a + b
            elif node == "dot":
                e, o = DotProduct(ve, ve2), a * ee + b * a
            elif node == "dotvv":
                e, o = DotProduct(ve, ve), a * a + b * b
            elif node == "l2":
                e = L2Norm(ve)
                s = a * a + b * b
                dom.append(val["a"] * val["a"] + val["b"] * val["b"] > 0)
                o = s.sqrt()
            elif node == "l1":
                e = L1Norm(ve)
                dom += [val["a"] != 0, val["b"] != 0]
                o = abs(a) + abs(b)
            else:
                Q = np.array([[val["q00"], val["q01"]], [val["q10"], val["q11"]]], dtype=object)
                e = QuadraticForm(ve, Q)
                o = a * (val["q00"] * a + val["q01"] * b) + b * (val["q10"] * a + val["q11"] * b)
        out = {}
        for name, fn in (("gradient", A.gradient), ("_gradient_cached", A._gradient_cached), ("_gradient_iterative", A._gradient_iterative)):
            try:
                out[name] = fn(e, wrt).evaluate({})
            except Exception as ex:  # noqa: BLE001
                out[name] = ex
        return out, o, dom

    for dec, labels, pc, (out, o, dom) in K.explore(build, max_paths=200):
        if out is None:
            continue
        oracle = K.tangent(o)
        for name, got in out.items():
            what = f"T1 {case} {name}"
            if isinstance(got, SymbolicConcretisation):
                res.append(K.vacuous_or_error(got, pc, dom, what, repr(case)))
                continue
            if isinstance(got, Exception):
                res.append(violation(f"C02|T1|{name}|raises:{type(got).__name__}|{case[0]}:{case[1]}", f"{what} raises {type(got).__name__}: {str(got)[:100]}",
                                     dict(kind="t1", case=repr(case), fn=name)))
                continue
            res.append(K.decide(smt.eq(got, oracle), pc, dom, what, f"C02|T1|{name}|wrong-rule|{case[0]}:{case[1]}", dict(kind="t1", case=repr(case), fn=name), allv, QT[_TIER]))
    return res
