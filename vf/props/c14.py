"""C14 - independent models do not interfere through process-wide caches.

The process-wide caches are DISCOVERED at run time (every functools.lru_cache
wrapper in optyx.*), so a new cache is included automatically.  For a target
model M and every prefix of k <= 3 other models drawn from a pool (same
variable / parameter NAMES as M but other symbolic values, other structure,
other vector sizes, other variable orders; each prefix model is compiled,
differentiated, classified and solved), the observations on a fresh build of M
after the prefix (compiled value for two variable orders, symbolic gradient,
compiled Jacobian and Hessian, degree, variables, recorded solver arguments)
must equal, for all points and all parameter / constant values, the same
observations on another fresh build of M after cache_clear() of every cache
(equivalent to a fresh process for this state: stated assumption).  Cache
overflow (more entries than maxsize) is driven by a concrete loop."""
from __future__ import annotations

import itertools

import numpy as np

from vf.engine import stubs
from vf.engine.recipes import free_names
from vf.props import common as K
from vf.props.common import harness_error, inconclusive, proved, violation

ID = "C14"
LEVEL = "model_checking"
ITEM_BUDGET_S = {"quick": 500, "thorough": 1800}
QT = {"quick": 15000, "thorough": 30000}
_TIER = "quick"
X, Y = ("var", "x"), ("var", "y")
P = ("param", "p")
V2, V3 = ("vec", "v", 2), ("vec", "v", 3)


def S(n):
    return ("sym", n)


TARGETS = [
    ("p*x", ("bin", "*", P, X)),
    ("p*x+y^2", ("bin", "+", ("bin", "*", P, X), ("bin", "*", Y, Y))),
    ("x", X),
    ("p", P),
    ("c*x", ("bin", "*", ("const", S("c")), X)),
    ("sum(v^2)+p", ("bin", "+", ("vsum", ("vpow", V2, 2)), P)),
    ("k@v", ("lincomb", [S("k0"), S("k1")], V2)),
    ("p*v.v", ("bin", "*", P, ("dot", V2, V2))),
    ("sin(p*x)/y", ("bin", "/", ("un", "sin", ("bin", "*", P, X)), Y)),
    ("x+p*y (linear)", ("bin", "+", X, ("bin", "*", P, Y))),
]
# prefix pool: (tag, recipe, suffix of the alternative valuation, reverse variable order?)
POOL = [
    ("same:p*x", ("bin", "*", P, X), "a", False),
    ("same:p*x+y^2", ("bin", "+", ("bin", "*", P, X), ("bin", "*", Y, Y)), "b", True),
    ("p+x", ("bin", "+", P, X), "a", False),
    ("y*x", ("bin", "*", Y, X), "b", True),
    ("c*x", ("bin", "*", ("const", S("c")), X), "a", False),
    ("sum(v3^2)+p", ("bin", "+", ("vsum", ("vpow", V3, 2)), P), "b", False),
    ("k@v", ("lincomb", [S("k0"), S("k1")], V2), "a", True),
    ("p alone", P, "b", False),
    ("sin(p*x)/y", ("bin", "/", ("un", "sin", ("bin", "*", P, X)), Y), "a", True),
    # the variable list is RE-DECLARED by name (other objects, other bounds): legal, variables are identified by name
    ("redeclared:p*x+y^2", ("bin", "+", ("bin", "*", P, X), ("bin", "*", Y, Y)), "b", False, True),
    ("redeclared:y*x", ("bin", "*", Y, X), "a", True, True),
    ("redeclared:k@v", ("lincomb", [S("k0"), S("k1")], V2), "b", False, True),
]

META = dict(
    rule="one case = (target model, prefix of k pool models, observation); the solver quantifies over the point and over the values of the target AND of every prefix model (distinct symbols per model)",
    bounds={
        "quick": "10 targets x all prefixes of length <= 2 over a pool of 12 (exhaustive: 12 + 144) + length-3 prefixes with a repeated name-colliding model; overflow loops of 1100 / 4200 / 1100 distinct expressions for the three caches",
        "thorough": "all prefixes of length <= 3 (exhaustive: 1884 per target)",
    },
    outside=["a real fresh process (cache_clear() of every discovered cache is taken as equivalent)", "per-object caches (Expression._degree, Problem caches: C13)", "rounding (S7)"],
    assumptions=["S4/S5 'fixed'", "S1", "S2", "S6", "S7"],
    exhaustive_within_bounds=True,
)


def worker_init(tier, seed):
    global _TIER
    _TIER = tier


def items(tier, seed):
    pre = [()] + [(i,) for i in range(len(POOL))] + list(itertools.product(range(len(POOL)), repeat=2))
    if tier == "thorough":
        pre += list(itertools.product(range(len(POOL)), repeat=3))
    else:
        pre += [(i, j, i) for i in (0, 1, 7) for j in range(len(POOL))]
    its = [("twin", 0), ("overflow", 0)]
    for t in range(len(TARGETS)):
        for ch in K.chunks(pre, 40):
            its.append(("pre", (t, ch, False)))
    # the same with the deep-tree (iterative) builders forced from outside for prefix AND target
    short = [()] + [(i,) for i in range(len(POOL))] + ([(i, j) for i in range(len(POOL)) for j in range(len(POOL))] if tier == "thorough" else [(i, i) for i in range(len(POOL))])
    for t in range(len(TARGETS)):
        its.append(("pre", (t, short, True)))
    return its


def caches():
    import sys
    out = []
    for name, mod in list(sys.modules.items()):
        if name == "optyx" or name.startswith("optyx."):
            for k, v in list(mod.__dict__.items()):
                if hasattr(v, "cache_clear") and hasattr(v, "cache_info") and (name, k) not in [(a, b) for a, b, _ in out]:
                    if getattr(v, "__module__", name) == name:
                        out.append((name, k, v))
    return out


def clear_all():
    for _, _, c in caches():
        c.cache_clear()


def valuation(recipe, suffix):
    names = free_names(recipe)
    from vf.engine.sym import SReal
    val = {}
    for n in names["vars"]:
        val[n] = SReal.var(n)          # the point is shared: same variable names
    for n in names["syms"] + names["params"]:
        val[n] = SReal.var(n + ("_" + suffix if suffix else ""))
    return val


_WORK, _WORK2 = [], []   # ONE list object per process, refilled in place for every model (a user's work list)


_SOLVER_ARG = itertools.count(3)   # every prefix solve uses solver arguments nobody used before in this process


def observe_model(recipe, val, reverse=False, redeclare=False, solver_args=False):
    """fresh expression / variable objects every time, handed over in a reused list object; returns {obs: value | exception}"""
    import warnings
    from optyx import Problem
    from optyx.core import autodiff as A
    from optyx.core import compiler as C
    import optyx.analysis as An
    b, e = K.build_recipe(recipe, val)
    names = free_names(recipe)
    cols = list(names["vars"])
    if not cols:
        cols = ["x"]
    order = list(reversed(cols)) if reverse else cols
    from optyx import Variable
    decl = set(names["vars"])
    V = [b.S(("var", n)) if n in decl else Variable(n) for n in order]
    if redeclare:
        V = [Variable(v_.name, lb=-1.0, ub=1.0) for v_ in V]
    _WORK[:] = V
    V = _WORK
    x = np.empty(len(order), dtype=object)
    for i, n in enumerate(order):
        x[i] = val.get(n, 0.0)
    if not any(hasattr(t, "t") for t in x):
        x = np.array([float(t) for t in x])
    point = {n: val.get(n, 0.0) for n in order}
    out = {}

    def rec(name, fn):
        try:
            out[name] = fn()
        except Exception as ex:  # noqa: BLE001
            out[name] = ex

    rec("compile", lambda: C.compile_expression(e, V)(x))
    _WORK2[:] = list(reversed(V))
    V2_ = _WORK2
    x2 = x[::-1].copy()
    rec("compile(other order)", lambda: C.compile_expression(e, V2_)(x2))
    rec("gradient", lambda: [A.gradient(e, v).evaluate(point) for v in V])
    rec("compile_gradient", lambda: list(np.asarray(C.compile_gradient(e, V)(x)).reshape(-1)))
    rec("compile_jacobian", lambda: list(np.asarray(A.compile_jacobian([e], V)(x)).reshape(-1)))
    rec("compile_hessian", lambda: list(np.asarray(A.compile_hessian(e, V)(x)).reshape(-1)))
    rec("degree", lambda: (An.compute_degree(e), e.degree, An.is_linear(e)))

    def solve():
        p = Problem().minimize(e)
        ms, ls = stubs.MinimizeStub("fixed"), stubs.LinprogStub("fixed")
        kw = {}
        if solver_args:
            # a prefix model is solved with explicit solver arguments (an iteration cap, a tolerance)
            k_ = next(_SOLVER_ARG)
            kw = dict(maxiter=k_, tol=1.0 / (k_ + 1))
        with stubs.patched(ms, ls), warnings.catch_warnings():
            warnings.simplefilter("ignore")
            p.solve(**kw)
        pv = [v.name for v in p.variables]
        xs = np.empty(len(pv), dtype=object)
        for i, n in enumerate(pv):
            xs[i] = val.get(n, 0.0)
        res = [("vars", tuple(pv)), ("route", (len(ms.calls), len(ls.calls)))]
        # the plain (non-callable, non-array) arguments handed to the library: method, tolerance, options, extra keywords
        for c in ms.calls:
            res.append(("minimize-args", c.get("method"), repr(c.get("tol")), repr(sorted((c.get("options") or {}).items())), repr(sorted((c.get("kw") or {}).keys()))))
        for c in ls.calls:
            res.append(("linprog-args", c.get("method"), repr(sorted(k for k in c.keys() if k not in ("c", "A_ub", "b_ub", "A_eq", "b_eq", "bounds", "method")))))
        vals = []
        for c in ms.calls:
            vals.append(c["fun"](xs))
            vals += list(np.asarray(c["jac"](xs)).reshape(-1))
        for c in ls.calls:
            vals += list(np.asarray(c["c"], dtype=object).reshape(-1))
        return res, vals
    rec("solve", solve)
    return out


def compare(oa, ob, pc, what, sig, payload, allv):
    from vf.engine import smt
    from vf.engine.sym import SymbolicConcretisation
    res = []
    for name in oa:
        a, b = oa[name], ob[name]
        for e in (a, b):
            if isinstance(e, SymbolicConcretisation):
                res.append(harness_error(f"concretisation: {e}", item=what))
                a = b = None
        if a is None and b is None:
            continue
        if isinstance(a, Exception) or isinstance(b, Exception):
            if type(a) is not type(b):
                res.append(violation(f"{sig}|{name}|exception", f"{what}: {name} gives {a!r} after the prefix but {b!r} with clean caches", dict(payload, ob=name)))
            continue
        if name == "degree":
            if a != b:
                res.append(violation(f"{sig}|degree", f"{what}: degree {a} after the prefix vs {b} clean", dict(payload, ob=name)))
            else:
                res.append(proved(f"{what}: degree"))
            continue
        if name == "solve":
            (sa, va), (sb, vb) = a, b
            if sa != sb or len(va) != len(vb):
                res.append(violation(f"{sig}|solve-structure", f"{what}: solve {sa} after the prefix vs {sb} clean", dict(payload, ob=name)))
                continue
            a, b = va, vb
        fa = a if isinstance(a, list) else [a]
        fb = b if isinstance(b, list) else [b]
        if len(fa) != len(fb):
            res.append(violation(f"{sig}|{name}|shape", f"{what}: {name} shape differs", dict(payload, ob=name)))
            continue
        fa = [t.reshape(-1)[0] if isinstance(t, np.ndarray) and t.size == 1 else t for t in fa]
        fb = [t.reshape(-1)[0] if isinstance(t, np.ndarray) and t.size == 1 else t for t in fb]
        res.append(K.decide([smt.eq(u, v) for u, v in zip(fa, fb)], pc, [], f"{what}: {name}", f"{sig}|{name}", dict(payload, ob=name), allv, QT[_TIER]))
    return res


def run_prefix(t, prefix, planted=False, deep=False):
    if deep:
        from vf.props import c15
        old = c15.set_thresholds(0)
        try:
            rr = run_prefix(t, prefix, planted, False)
        finally:
            c15.restore_thresholds(old)
        for r in rr:
            r["what"] = "[iterative builders] " + r["what"]
            if r.get("sig"):
                r["sig"] += "|deep"
            if r.get("replay"):
                r["replay"]["deep"] = True
        return rr
    ttag, trecipe = TARGETS[t]
    tval = valuation(trecipe, "")
    allv = list(tval.keys())
    for i in set(prefix):
        allv += [n for n in valuation(POOL[i][1], POOL[i][2]).keys() if n not in allv]
    ptag = ">".join(POOL[i][0] for i in prefix) or "(empty)"
    what = f"{ttag} after [{ptag}]"
    sig = f"C14|{ttag}"
    payload = dict(kind="prefix", target=t, prefix=list(prefix))

    def path():
        clear_all()
        # the target BEFORE the prefix (clean LRU caches): state outside the LRU caches that a prefix model leaves behind
        # (module-level registries, mutated defaults) shows up as a difference to this observation
        before = observe_model(trecipe, tval)
        clear_all()
        for i in prefix:
            _, r, suf, rev = POOL[i][:4]
            observe_model(r, valuation(r, suf), rev, redeclare=(len(POOL[i]) > 4 and POOL[i][4]), solver_args=True)
        a = observe_model(trecipe, tval)
        if prefix and not planted and not isinstance(a.get("solve"), Exception) and not isinstance(before.get("solve"), Exception) and a["solve"][0] != before["solve"][0]:
            a["solve"] = ([("differs-from-the-solve-before-the-prefix", a["solve"][0], before["solve"][0])], a["solve"][1])
        clear_all()
        if planted:
            tv2 = dict(tval)
            for k in tv2:
                if k == "p":
                    from vf.engine.sym import SReal
                    tv2[k] = SReal.var("p_other")
            return a, observe_model(trecipe, tv2)
        return a, observe_model(trecipe, tval)

    out = []
    for dec, labels, pc, (oa, ob) in K.explore(path, max_paths=300, clear_caches=False):
        out += compare(oa, ob, pc, what, sig, payload, allv + ["p_other"])
    return out


def overflow():
    """push more distinct expressions than each cache holds, then observe"""
    from optyx import Variable, Parameter
    from optyx.core import autodiff as A
    from optyx.core import compiler as C
    import optyx.analysis as An
    out = []
    clear_all()
    sizes = {k: c.cache_info().maxsize for _, k, c in caches()}
    x = Variable("x")
    p_old = Parameter("p", 3.0)
    C.compile_expression(p_old * x, [x])
    A.compile_jacobian([p_old * x], [x])
    n = max(v for v in sizes.values() if v is not None) + 120
    for i in range(n):
        e = x * float(i + 2) + 1.0
        C.compile_expression(e, [x])
        A.gradient(e, x)
        An.compute_degree(e)
    infos = {k: c.cache_info().currsize for _, k, c in caches()}
    unfilled = {k: f"{infos[k]}/{sz}" for k, sz in sizes.items() if sz is not None and infos[k] < sz}
    out.append(dict(status="conformance", what=f"caches discovered: {sizes}; not overflowed by the loop: {unfilled or 'none'}", points=len(sizes)))
    # after the overflow, a name-colliding model must still be observed correctly (symbolic)
    out += run_prefix(0, (), False)
    out += run_prefix(1, (1,), False)
    return out


def check(item):
    kind, payload = item
    try:
        if kind == "pre":
            t, prefixes, deep = payload
            out = []
            for pr in prefixes:
                out += run_prefix(t, pr, deep=deep)
            return out
        if kind == "overflow":
            return overflow()
        if kind == "twin":
            rr = run_prefix(0, (0,), planted=True)
            nv = sum(x["status"] == "violation" for x in rr)
            cs = caches()
            out = [dict(status="conformance", what=f"twin refuted; caches: {[f'{m}.{k}' for m, k, _ in cs]}", points=len(cs)) if nv >= 2 else harness_error(f"twin not refuted ({nv})")]
            if len(cs) < 3:
                out.append(harness_error(f"expected at least 3 process-wide caches, discovered {len(cs)}"))
            return out
    except Exception as e:  # noqa: BLE001
        import traceback
        return [harness_error(f"{type(e).__name__}: {e}", item=repr(payload)[:200], tb=traceback.format_exc()[-1500:])]
    raise ValueError(kind)


def replay(payload):
    """concrete floats: target after the prefix vs target with clean caches"""
    import random
    if payload.get("deep"):
        from vf.props import c15
        old = c15.set_thresholds(0)
        try:
            return replay(dict(payload, deep=False))
        finally:
            c15.restore_thresholds(old)
    rng = random.Random(14)
    t, prefix = payload["target"], payload["prefix"]
    ttag, trecipe = TARGETS[t]

    def cval(recipe, lo):
        names = free_names(recipe)
        val = {n: rng.uniform(0.4, 1.4) for n in names["vars"]}
        for n in names["syms"] + names["params"]:
            val[n] = rng.uniform(lo, lo + 1.0)
        return val

    tval = cval(trecipe, 2.0)
    clear_all()
    for i in prefix:
        _, r, suf, rev = POOL[i][:4]
        v = cval(r, 5.0 if suf == "a" else 8.0)
        for n in free_names(r)["vars"]:
            v[n] = tval.get(n, v[n])
        with np.errstate(all="ignore"):
            observe_model(r, v, rev, redeclare=(len(POOL[i]) > 4 and POOL[i][4]), solver_args=True)
    with np.errstate(all="ignore"):
        oa = observe_model(trecipe, tval)
        clear_all()
        ob = observe_model(trecipe, tval)
    if payload.get("ob") == "solve" and not isinstance(oa.get("solve"), Exception):
        # a solve WITHOUT solver arguments must not inherit any from the prefix solves (iteration cap, tolerance)
        for rec_ in oa["solve"][0]:
            if rec_[0] == "minimize-args" and (rec_[2] != "None" or "maxiter" in rec_[3]):
                return True, f"{ttag}: a plain solve() after the prefix {[POOL[i][0] for i in prefix]} hands the solver tol={rec_[2]}, options={rec_[3]} (left behind by an earlier model's solve)"
    name = payload.get("ob")
    for k in ([name] if name in oa else list(oa)):
        a, b = oa[k], ob[k]
        if isinstance(a, Exception) or isinstance(b, Exception):
            if type(a) is not type(b):
                return True, f"{ttag}: {k} gives {a!r} after the prefix {[POOL[i][0] for i in prefix]} but {b!r} with clean caches"
            continue
        if k == "degree":
            if a != b:
                return True, f"{ttag}: degree {a} vs {b}"
            continue
        if k == "solve":
            if a[0] != b[0]:
                return True, f"{ttag}: solve structure {a[0]} vs {b[0]}"
            a, b = a[1], b[1]
        fa = np.asarray(a, dtype=float).reshape(-1)
        fb = np.asarray(b, dtype=float).reshape(-1)
        if fa.shape != fb.shape or not np.allclose(fa, fb, rtol=1e-9, atol=1e-12, equal_nan=True):
            return True, f"{ttag} (values {tval}): {k} = {fa.tolist()} after the prefix {[POOL[i][0] for i in prefix]} but {fb.tolist()} with clean caches"
    return False, "no difference reproduced"
