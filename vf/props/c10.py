"""C10 - constraints mean the relation the user wrote, also inside the solver.

Operand-kind x sense x shape grid: lhs / rhs in {Python int / float, np.float64,
np.int64, 0-d array, Variable, Parameter, expression, VectorVariable,
VectorExpression, list, 1-D array, MatrixVariable, MatrixExpression, 2-D
array}, reflected forms (5 <= x, arr >= x) and .eq.  With a symbolic point and
symbolic right-hand values z3 proves for every produced constraint
  evaluate/violation: max(0, l-r) for <=, max(0, r-l) for >=, |l-r| for ==
  is_satisfied(p)  <=>  violation(p) <= tol
  one constraint per element in row-major order
and, through the stub S4, that the dict handed to SciPy has fun >= 0 (== 0)
exactly on the relation and jac == grad fun.  An operand combination may be
rejected with an exception; returning something that is not a Constraint (list)
is a violation.  Shape mismatches must raise."""
from __future__ import annotations

import numpy as np
import z3

from vf.engine.recipes import Build, Ref, carr, carr2, cval, declare, free_names, kind_of
from vf.props import common as K
from vf.props.common import harness_error, inconclusive, proved, violation

ID = "C10"
LEVEL = "model_checking"
ITEM_BUDGET_S = {"quick": 300, "thorough": 900}
QT = {"quick": 15000, "thorough": 30000}
_TIER = "quick"
TOL = 1e-8

META = dict(
    rule="one case = (lhs kind, rhs kind, sense/orientation, element, path); the solver quantifies over the point and the right-hand values",
    bounds={
        "quick": "3 scalar x 9 rhs kinds, 2 vector x 8 rhs kinds, 3 matrix x 6 rhs kinds, x {<=, >=, eq, reflected <=, reflected >=}; n=3 vectors, 2x2 matrices; 14 shape-mismatch pairs",
        "thorough": "same grid with n=4 vectors and 2x3 matrices",
    },
    outside=["rounding (S7)", "operand kinds not in the grid"],
    assumptions=["S1", "S2", "S4 (records the dicts)", "S7"],
    exhaustive_within_bounds=True,
)


def worker_init(tier, seed):
    global _TIER
    _TIER = tier


def S(n):
    return ("sym", n)


def grid(tier):
    n = 3 if tier == "quick" else 4
    r, c = (2, 2) if tier == "quick" else (3, 3)
    X, Y, P = ("var", "x"), ("var", "y"), ("param", "p")
    v, w = ("vec", "v", n), ("vec", "w", n)
    A, B = ("mat", "A", r, c), ("mat", "B", r, c)
    rv = ("slice", v, None, None, -1)
    scal_l = [X, P, ("bin", "+", ("bin", "*", X, Y), ("num", 1.0)), ("bin", "+", ("bin", "*", P, X), Y),
              # vector reductions over views (the compiled fun and its jac take different routes)
              ("dot", rv, w), ("dot", v, rv), ("quad", rv, [[float((i * 2 + j * 3) % 5) for j in range(n)] for i in range(n)]),
              ("lincomb", [1.0, 2.0, 3.0, 4.0][:n], ("slice", v, 0, n, 2) if n < 3 else ("slice", v, None, None, -2)),
              # a reduction in reflected position: number - f(x), number / ..., number * f(x)
              ("bin", "-", ("num", 1.0), ("vsum", v)), ("bin", "-", ("const", S("r")), ("lincomb", [1.0, 2.0, 3.0, 4.0][:n], v)),
              ("bin", "-", ("num", 4.0), ("dot", v, v)), ("bin", "*", ("num", -2.0), ("bin", "-", ("num", 1.0), ("vsum", ("vpow", v, 2)))),
              ("bin", "+", ("num", 1.0), ("un", "neg", ("vsum", v)))]
    scal_r = [("py", "int", 3), ("py", "float", S("r")), ("np", "float64", 2.5), ("np", "int64", 3), ("np", "arr0", 2.5),
              Y, P, ("bin", "*", Y, ("num", 2.0)), ("py", "float", 0.0)]
    vec_l = [v, ("vbin", "+", v, w), rv]
    vec_r = [("py", "float", S("r")), ("py", "int", 2), ("np", "float64", 2.5), ("np", "int64", 3), w, ("vbin", "*", w, ("sc", 2.0)),
             ("lst", [S(f"r{i}") for i in range(n)]), ("arr", [S(f"r{i}") for i in range(n)])]
    mat_l = [A, ("mbin", "+", A, ("sc", 1.0)), ("mT", ("mat", "C", c, r))]
    if r == c:
        mat_l.append(("mat", "S", r, r, True))                 # symmetric sharing: S[i,j] is S[j,i]
        mat_l.append(("mT", ("mat", "S", r, r, True)))
    mat_r = [("py", "float", S("r")), ("py", "int", 2), ("np", "float64", 2.5), ("arr2", [[S(f"r{i}{j}") for j in range(c)] for i in range(r)]), B, ("mbin", "*", B, ("sc", 2.0))]
    out = []
    for ls, rs in ((scal_l, scal_r), (vec_l, vec_r), (mat_l, mat_r)):
        for l in ls:
            for rr in rs:
                for form in ("le", "ge", "eq", "rle", "rge"):
                    if form in ("rle", "rge") and rr[0] not in ("py", "np", "lst", "arr", "arr2"):
                        continue
                    out.append((form, l, rr))
    return out


def mismatches():
    v3, v2 = ("vec", "v", 3), ("vec", "u", 2)
    A, B23 = ("mat", "A", 2, 2), ("mat", "B", 2, 3)
    out = []
    for form in ("le", "ge", "eq"):
        out += [(form, v3, v2), (form, v3, ("arr", [1.0, 2.0])), (form, v3, ("lst", [1.0, 2.0, 3.0, 4.0])), (form, ("vbin", "*", v3, ("sc", 2.0)), v2),
                (form, A, B23), (form, A, ("arr2", [[1.0, 2.0, 3.0], [4.0, 5.0, 6.0]])), (form, ("mbin", "+", A, ("sc", 1.0)), ("mT", A) if False else B23),
                (form, A, ("arr", [1.0, 2.0])), (form, v3, ("arr2", [[1.0, 2.0, 3.0]]))]
    return out


def operand(b, spec):
    if spec[0] == "py":
        v = cval(spec[2], b.val)
        return int(v) if spec[1] == "int" else v
    if spec[0] == "np":
        return {"float64": np.float64, "int64": np.int64, "arr0": lambda x: np.array(float(x))}[spec[1]](spec[2])
    if spec[0] == "arr":
        return carr(spec[1], b.val)
    if spec[0] == "lst":
        return list(carr(spec[1], b.val))
    if spec[0] == "arr2":
        return carr2(spec[1], b.val)
    return getattr(b, kind_of(spec))(spec)


def ref_operand(ref, spec):
    if spec[0] in ("py", "np"):
        return cval(spec[2], ref.val)
    if spec[0] in ("arr", "lst"):
        return carr(spec[1], ref.val)
    if spec[0] == "arr2":
        return carr2(spec[1], ref.val)
    return getattr(ref, kind_of(spec))(spec)


def names_of(case):
    acc = None
    for spec in case[1:]:
        if spec[0] in ("py", "np"):
            acc = free_names(("const", spec[2]), acc)
        else:
            acc = free_names(spec, acc)
    return acc


def build_constraint(case, val):
    form, l, r = case
    b = Build(val)
    for spec in (l, r):
        if spec[0] not in ("py", "np", "arr", "lst", "arr2"):
            for d in declare(spec):
                (b.V if d[0] == "vec" else b.M)(d)
    L, Rr = operand(b, l), operand(b, r)
    if form == "le":
        return L <= Rr
    if form == "ge":
        return L >= Rr
    if form == "eq":
        return L.eq(Rr)
    if form == "rle":
        return Rr <= L
    if form == "rge":
        return Rr >= L
    raise ValueError(form)


def observe(case, val, names):
    from optyx.constraints import Constraint
    try:
        c = build_constraint(case, val)
    except Exception as e:  # noqa: BLE001
        return {"raises": e}
    cons = c if isinstance(c, list) else [c]
    if not all(isinstance(k, Constraint) for k in cons) or isinstance(c, (bool, np.bool_, np.ndarray)):
        return {"notconstraint": c}
    point = {n: val[n] for n in names["vars"]}
    out = {"n": len(cons), "sense": [k.sense for k in cons], "ev": [], "viol": [], "sat": [], "cons": cons}
    for k in cons:
        out["ev"].append(k.evaluate(point))
        out["viol"].append(k.violation(point))
        out["sat"].append(k.is_satisfied(point))
    return out


def want(case, val):
    """reference: per element (kind, l - r) with kind in <=, >=, =="""
    form, l, r = case
    ref = Ref(val, 0)
    a, b = ref_operand(ref, l), ref_operand(ref, r)
    a = np.asarray(a, dtype=object) if isinstance(a, np.ndarray) else a
    shape = a.shape if isinstance(a, np.ndarray) else (b.shape if isinstance(b, np.ndarray) else ())
    fa = a.reshape(-1) if isinstance(a, np.ndarray) else [a] * int(np.prod(shape) or 1)
    fb = b.reshape(-1) if isinstance(b, np.ndarray) else [b] * int(np.prod(shape) or 1)
    rel = {"le": "<=", "ge": ">=", "eq": "==", "rle": ">=", "rge": "<="}[form]   # relation between l and r
    return [(rel, x - y) for x, y in zip(fa, fb)], ref.dom


def _max0(t):
    from vf.engine.sym import SReal, term
    tt = term(t)
    return SReal(z3.If(tt > 0, tt, z3.RealVal(0)))


def check_case(case, planted=False):
    from vf.engine import smt
    from vf.engine.sym import SymbolicConcretisation, sbool_term
    res = []
    names = names_of(case)
    allv = names["vars"] + names["syms"] + names["params"]
    val = K.sym_val(allv)
    tag = f"{case[0]} {K.shape(case[1], 3) if case[1][0] not in ('py', 'np') else case[1][:2]} {K.shape(case[2], 3) if case[2][0] not in ('py', 'np') else case[2][:2]}"
    sig0 = f"{case[0]}|{_kind(case[1])}|{_kind(case[2])}"
    payload = dict(kind="sem", case=K.enc(case))
    for dec, labels, pc, out in K.explore(lambda: observe(case, val, names), max_paths=500):
        if "raises" in out:
            e = out["raises"]
            if isinstance(e, SymbolicConcretisation):
                res.append(harness_error(f"concretisation: {e}", item=tag))
            else:
                res.append(dict(status="conformance", what=f"rejected with {type(e).__name__}: {tag}", points=0))
            continue
        if "notconstraint" in out:
            res.append(violation(f"C10|not-a-constraint|{sig0}", f"{tag}: comparison returned {type(out['notconstraint']).__name__} {out['notconstraint']!r} instead of constraint(s)", dict(payload, kind="notconstraint")))
            continue
        w, dom = want(case, val)
        if out["n"] != len(w):
            res.append(violation(f"C10|count|{sig0}", f"{tag}: {out['n']} constraints for {len(w)} elements", dict(payload, kind="count")))
            continue
        claims_v, claims_s = [], []
        for k, (rel, d) in enumerate(w):
            if rel == "<=":
                exp = _max0(d)
            elif rel == ">=":
                exp = _max0(-d)
            else:
                exp = abs(d)
            if planted:
                exp = exp + 1.0
            claims_v.append(smt.eq(out["viol"][k], exp))
            claims_s.append(sbool_term(out["sat"][k]) == sbool_term(exp <= TOL))
        res.append(K.decide(claims_v, pc, dom, f"{tag}: violation == amount the relation fails", f"C10|violation|{sig0}", payload, allv, QT[_TIER]))
        res.append(K.decide(claims_s, pc, dom, f"{tag}: is_satisfied <=> violation <= tol", f"C10|is_satisfied|{sig0}", payload, allv, QT[_TIER]))
    return res


def _kind(spec):
    if spec[0] in ("py", "np"):
        return f"{spec[0]}.{spec[1]}"
    if spec[0] in ("arr", "lst", "arr2"):
        return spec[0]
    k = kind_of(spec)
    return {"S": "scalar", "V": "vector", "M": "matrix"}[k] + ":" + spec[0]


def check_scipy(case):
    """the dicts handed to SciPy for this constraint (through the S4 stub)"""
    from optyx import Problem
    from vf.engine import smt, stubs
    from vf.engine.sym import SymbolicConcretisation, sbool_term
    import warnings
    res = []
    names = names_of(case)
    allv = names["vars"] + names["syms"] + names["params"] + [n + "'" for n in names["params"]]
    val0 = K.sym_val(allv + ["zq", "a0"])
    allv = allv + ["zq", "a0"]
    val1 = {**val0, **{n: val0[n + "'"] for n in names["params"]}}
    val = val0
    tag0 = f"scipy {case[0]} {_kind(case[1])} {_kind(case[2])}"
    sig00 = f"{case[0]}|{_kind(case[1])}|{_kind(case[2])}"

    def run(second=False, pre=False):
        try:
            c = build_constraint(case, val)
        except Exception as e:  # noqa: BLE001
            return None
        cons = c if isinstance(c, list) else [c]
        if not all(hasattr(cc, "get_variables") for cc in cons):
            return None
        p = Problem()
        obj = None
        for cc in cons:
            for vv in sorted(cc.get_variables(), key=lambda q: q.name):
                obj = vv * vv if obj is None else obj + vv * vv
        if obj is None:
            return None
        if pre:
            # the problem first had an objective over ANOTHER variable set of the SAME size (a0 instead of zq: other
            # columns) and was solved; then the objective was replaced.  The constraint stays the relation written.
            from optyx import Variable
            zq, a0 = Variable("zq"), Variable("a0")
            p.minimize(obj + a0 * a0)
            try:
                p.subject_to(c)
            except Exception:  # noqa: BLE001
                return None
            with stubs.patched(stubs.MinimizeStub("fixed"), None), warnings.catch_warnings():
                warnings.simplefilter("ignore")
                p.solve(method="SLSQP")
            p.minimize(obj + zq * zq)
        else:
            p.minimize(obj)
            try:
                p.subject_to(c)
            except Exception:  # noqa: BLE001
                return None
        ms = stubs.MinimizeStub("fixed")
        with stubs.patched(ms, None), warnings.catch_warnings():
            warnings.simplefilter("ignore")
            p.solve(method="SLSQP")
        # the same problem solved again after its parameters were updated
        from optyx.core.parameters import Parameter
        params = {o.name: o for cc in cons for o in K.reachable(cc.expr) if isinstance(o, Parameter)}
        ms2 = stubs.MinimizeStub("fixed")
        if second and params and all(n + "'" in val0 for n in params):
            for n, o in params.items():
                o.set(val0[n + "'"])
            with stubs.patched(ms2, None), warnings.catch_warnings():
                warnings.simplefilter("ignore")
                p.solve(method="SLSQP")
        return p, ms.calls, ms2.calls

    runs = []
    for dec, labels, pc, out in K.explore(run, max_paths=200):
        if out is None:
            continue
        runs.append((pc, out[0], out[1], val0, tag0, sig00, False))
    for dec, labels, pc, out in K.explore(lambda: run(False, True), max_paths=200):
        if out is not None:
            runs.append((pc, out[0], out[1], val0, tag0 + " [objective replaced after a solve: other variables, same count]", sig00 + "|reobj", "pre"))
    if names["params"]:
        # (the closures read the parameters when called, so the updated run is explored separately)
        for dec, labels, pc, out in K.explore(lambda: run(True), max_paths=200):
            if out is not None and out[2]:
                runs.append((pc, out[0], out[2], val1, tag0 + " [second solve, parameters updated]", sig00 + "|upd", True))
    for pc, p, calls, val, tag, sig0, upd in runs:
        if not calls:
            continue
        call = calls[0]
        cols = [v.name for v in p.variables]
        if any(n not in val for n in cols):
            res.append(harness_error(f"unknown variable in {cols}", item=tag))
            continue
        x = np.empty(len(cols), dtype=object)
        for i, n in enumerate(cols):
            x[i] = val[n]
        w, dom = want(case, val)
        dicts = list(call["constraints"])
        payload = dict(kind="scipy", case=K.enc(case), upd=(upd is True), pre=(upd == "pre"))
        if upd is True:
            dom = dom + want(case, val0)[1]
        if len(dicts) != len(w):
            res.append(violation(f"C10|scipy-count|{sig0}", f"{tag}: {len(dicts)} dicts for {len(w)} elements", payload))
            continue
        cf, cj = [], []
        for k, ((rel, d), cd) in enumerate(zip(w, dicts)):
            f = cd["fun"](x)
            if rel == "==":
                if cd["type"] != "eq":
                    res.append(violation(f"C10|scipy-type|{sig0}", f"{tag}: element {k} has type {cd['type']}", payload))
                    continue
                cf.append(sbool_term(f == 0) == sbool_term(d == 0))
            else:
                if cd["type"] != "ineq":
                    res.append(violation(f"C10|scipy-type|{sig0}", f"{tag}: element {k} has type {cd['type']}", payload))
                    continue
                cf.append(sbool_term(f >= 0) == sbool_term((d <= 0) if rel == "<=" else (d >= 0)))
            g = np.asarray(cd["jac"](x)).reshape(-1)
            for j, wn in enumerate(cols):
                dv = K.dual_val({n: val[n] for n in cols}, wn)
                xd = np.empty(len(cols), dtype=object)
                for i, n in enumerate(cols):
                    xd[i] = dv[n]
                cj.append(smt.eq(g[j], K.tangent(cd["fun"](xd))))
        res.append(K.decide(cf, pc, dom, f"{tag}: fun>=0 (==0) iff relation", f"C10|scipy-fun|{sig0}", payload, allv, QT[_TIER]))
        res.append(K.decide(cj, pc, dom, f"{tag}: jac == grad fun", f"C10|scipy-jac|{sig0}", payload, allv, QT[_TIER]))
    return res


def check_mismatch(case):
    names = names_of(case)
    val = {n: 0.5 for n in names["vars"] + names["syms"] + names["params"]}
    try:
        c = build_constraint(case, val)
    except Exception as e:  # noqa: BLE001
        return [proved(f"shape mismatch rejected with {type(e).__name__}: {case[0]} {_kind(case[1])} {_kind(case[2])}")]
    return [violation(f"C10|mismatch-accepted|{case[0]}|{_kind(case[1])}|{_kind(case[2])}",
                      f"shape-mismatched operands accepted: {case} -> {str(c)[:100]}", dict(kind="mismatch", case=K.enc(case)))]


def items(tier, seed):
    g = grid(tier)
    its = [("twin", 0), ("mismatch", mismatches())]
    its += [("sem", ch) for ch in K.chunks(g, 10)]
    its += [("scipy", ch) for ch in K.chunks([c for c in g if c[0] in ("le", "ge", "eq", "rge")], 10)]
    return its


def check(item):
    kind, payload = item
    if kind == "sem":
        return K.safe_items(check_case, payload)
    if kind == "scipy":
        return K.safe_items(check_scipy, payload)
    if kind == "mismatch":
        return K.safe_items(check_mismatch, payload)
    if kind == "twin":
        rr = check_case(("le", ("vec", "v", 3), ("py", "float", S("r"))), planted=True)
        nv = sum(x["status"] == "violation" for x in rr)
        return [dict(status="conformance", what="twin refuted", points=1) if nv >= 1 else harness_error("reachability twin not refuted")]
    raise ValueError(kind)


def replay(payload):
    import random
    case = K.dec(payload["case"])
    names = names_of(case)
    allv = names["vars"] + names["syms"] + names["params"]
    if payload["kind"] == "mismatch":
        r = check_mismatch(case)
        return r[0]["status"] == "violation", r[0]["what"]
    for pt in K.candidate_points(allv, payload.get("values", {}), 3):
        if payload["kind"] == "scipy":
            continue
        out = observe(case, pt, names)
        if "raises" in out:
            return False, f"rejected: {out['raises']!r}"
        if "notconstraint" in out:
            return True, f"comparison returned {type(out['notconstraint']).__name__} {out['notconstraint']!r} instead of a Constraint"
        w, dom = want(case, pt)
        if out["n"] != len(w):
            return True, f"{out['n']} constraints for {len(w)} elements"
        for k, (rel, d) in enumerate(w):
            d = float(d)
            exp = max(0.0, d) if rel == "<=" else max(0.0, -d) if rel == ">=" else abs(d)
            if not K.close(float(out["viol"][k]), exp, 1e-9, 1e-12):
                return True, f"at {pt}: element {k} violation={float(out['viol'][k])!r}, relation fails by {exp!r}"
            if abs(exp - TOL) > 1e-12 and bool(out["sat"][k]) != (exp <= TOL):  # concrete replay: plain bools
                return True, f"at {pt}: element {k} is_satisfied={out['sat'][k]} but violation={exp}"
    if payload["kind"] == "scipy":
        return _replay_scipy(case, payload)
    return False, "no difference reproduced"


def _replay_scipy(case, payload):
    import random
    import types
    import warnings
    import optyx.solvers.scipy_solver as ss
    from optyx import Problem
    names = names_of(case)
    allv = names["vars"] + names["syms"] + names["params"] + [n + "'" for n in names["params"]]
    rng = random.Random(2)
    upd = bool(payload.get("upd"))
    pre = bool(payload.get("pre"))
    allv = allv + ["zq", "a0"]
    for pt in K.candidate_points(allv, payload.get("values", {}), 3, n=6):
        c = build_constraint(case, pt)
        cons = c if isinstance(c, list) else [c]
        p = Problem()
        obj = None
        for cc in cons:
            for vv in sorted(cc.get_variables(), key=lambda q: q.name):
                obj = vv * vv if obj is None else obj + vv * vv
        if pre:
            from optyx import Variable
            zq, a0 = Variable("zq"), Variable("a0")
            p.minimize(obj + a0 * a0).subject_to(c)
        else:
            p.minimize(obj).subject_to(c)
        cap = []

        def fake(fun, x0, **kw):
            cap.append(kw)
            return types.SimpleNamespace(x=np.array(x0, dtype=float), fun=fun(np.array(x0, dtype=float)), success=False, message="scripted", nit=0)
        old = ss.minimize
        ss.minimize = fake
        try:
            with warnings.catch_warnings():
                warnings.simplefilter("ignore")
                p.solve(method="SLSQP")
                if pre:
                    p.minimize(obj + zq * zq)
                    del cap[:]
                    p.solve(method="SLSQP")
                if upd:
                    from optyx.core.parameters import Parameter
                    for cc in cons:
                        for o in K.reachable(cc.expr):
                            if isinstance(o, Parameter):
                                o.set(pt[o.name + "'"])
                    del cap[:]
                    p.solve(method="SLSQP")
                    pt = {**pt, **{n: pt[n + "'"] for n in names["params"]}}
        finally:
            ss.minimize = old
        cols = [v.name for v in p.variables]
        x = np.array([pt[n] for n in cols])
        w, dom = want(case, pt)
        for k, ((rel, d), cd) in enumerate(zip(w, cap[0]["constraints"])):
            f = float(cd["fun"](x))
            d = float(d)
            if abs(d) > 1e-9:
                ok = (f >= 0) == ((d <= 0) if rel == "<=" else (d >= 0)) if rel != "==" else True
                if not ok:
                    return True, f"at {pt}: element {k} fun={f} but relation value={d} ({rel})"
            g = np.asarray(cd["jac"](x), dtype=float).reshape(-1)
            for j in range(len(cols)):
                xp, xm = x.copy(), x.copy()
                xp[j] += 1e-6
                xm[j] -= 1e-6
                fd = (float(cd["fun"](xp)) - float(cd["fun"](xm))) / 2e-6
                if abs(fd - g[j]) > 1e-4 * (1 + abs(fd)):
                    return True, f"element {k} jac[{j}]={g[j]} but finite difference of fun = {fd}"
    return False, "no difference reproduced"
