"""C03 - solver-facing gradients / Jacobians in the declared variable order.

For lists [e_1..e_m] and every ordering / superset V the real compile_jacobian,
compile_gradient, CompiledExpression.gradient and every jacobian_row
implementation are executed on a symbolic x; z3 proves entry (i, j) equal to
the dual-number derivative d e_i / d V_j for all x and all symbolic data.  The
__name__ of each returned callable is recorded as the witness of which fast
path ran."""
from __future__ import annotations

import random

import numpy as np

from vf.engine.recipes import Ref, free_names, show
from vf.props import common as K
from vf.props.common import harness_error, inconclusive, proved, violation

ID = "C03"
LEVEL = "model_checking"
ITEM_BUDGET_S = {"quick": 300, "thorough": 1200}
QT = {"quick": 15000, "thorough": 8000}
_TIER = "quick"
PATHS_SEEN = set()

META = dict(
    rule="one case = (expression list, variable order V, observation, entry (i,j), path); non-trivial = list with >=1 decided query",
    bounds={
        "quick": "m<=3 expressions; singles from the depth<=2 family restricted to vector/matrix nodes, affine wrappers and a scalar sample; n=3 vectors (and n=1,2 for the vectorised sums); |V|<=7; every permutation when <=3 variables, rotations otherwise, supersets with one unused variable",
        "thorough": "500 recipes of the depth<=3 family as singles, n up to 4, two unused variables, 90 VERIF_SEED random lists",
    },
    outside=["rounding (S7)", "non-regular points (C19 covers sanitisation)", "m>3, n>5"],
    assumptions=["S1", "S2", "S3 (isfinite == True on reals)", "S6", "S7"],
    exhaustive_within_bounds=True,
)


def worker_init(tier, seed):
    global _TIER
    _TIER = tier


def family(tier):
    X, Y, C = K.X, K.Y, K.C
    out = []
    for n in ((3,) if tier == "quick" else (1, 2, 3, 4)):
        vn = K.vec_nodes(n, full=(n >= 2))
        for r in vn:
            out.append([r])
            out.append([("bin", "+", r, ("const", 5.0))])
            out.append([("bin", "-", r, ("const", ("sym", "c")))])
            out.append([("bin", "+", ("const", 1.0), r)])
            out.append([("bin", "*", ("const", ("sym", "c")), r)])
            out.append([("bin", "*", r, ("const", 2.0))])
            out.append([("bin", "*", ("num", 3.0), ("bin", "-", r, ("num", 1.0)))])
            out.append([("bin", "+", r, X)])
        for r1 in vn[:6]:
            for r2 in vn[3:9]:
                out.append([r1, r2])
    for n in (1, 2):
        v = ("vec", "v", n)
        for k in (1, 2, 3, 0.5, -1):
            out.append([("vsum", ("vpow", v, k))])
        for op in ("sin", "log", "abs"):
            out.append([("vsum", ("vun", op, v))])
    v = K.V3
    # overlapping / repeated views of one vector
    out += [
        [("dot", ("slice", v, 0, 2, None), ("slice", v, 1, 3, None))],
        [("dot", ("slice", v, 0, 2, None), ("slice", v, 0, 2, None))],
        [("dot", v, ("slice", v, None, None, -1))],
        [("dot", ("slice", v, 0, 2, None), ("slice", K.W3, 0, 2, None))],
        [("bin", "+", ("vsum", v), ("vsum", ("slice", v, 0, 2, None)))],
        [("lincomb", [1.0, ("sym", "k0")], ("slice", v, 1, 3, None))],
        [("quad", ("slice", v, 0, 2, None), [[1.0, ("sym", "q")], [0.0, 2.0]])],
        [("vsum", ("vpow", ("slice", v, 1, 3, None), 2))],
        [("vsum", ("vpow", ("slice", v, None, None, -1), 3))],
        [("vsum", ("vun", "exp", ("slice", v, 0, 3, 2)))],
        [("dot", ("mrow", ("mat", "S", 2, 2, True), 0), ("mcol", ("mat", "S", 2, 2, True), 1))],
        [("msum", ("mat", "S", 3, 3, True))],
        [("bin", "*", ("const", 2.0), ("msum", ("mat", "S", 2, 2, True)))],
        [("dot", ("mdiag", ("mat", "A", 2, 2)), ("mrow", ("mat", "A", 2, 2), 0))],
    ]
    # all-constant rows, scaled-variable rows, mixtures
    out += [
        [("bin", "+", X, Y), ("bin", "-", ("bin", "*", ("num", 2.0), X), Y)],
        [("bin", "+", ("bin", "*", C, X), Y), ("vsum", v)],
        [("bin", "*", ("num", 2.0), X)],
        [("bin", "*", X, ("num", 2.0))],
        [("bin", "+", ("bin", "*", X, X), ("bin", "*", Y, Y))],
        [("bin", "*", X, Y), ("un", "sin", X), ("bin", "/", X, Y)],
        [("dot", v, v), ("vsum", v), ("bin", "*", X, ("vsum", v))],
        [("param", "p")], [("bin", "*", ("param", "p"), X)],
        [("bin", "*", ("param", "p"), ("vsum", v))],
        [("bin", "+", ("bin", "*", ("param", "p"), X), ("bin", "*", ("param", "q"), Y))],
        [("bin", "+", ("bin", "*", ("param", "p"), X), Y), ("bin", "-", X, ("bin", "*", Y, ("param", "q")))],
        [("bin", "-", ("bin", "*", ("bin", "+", ("param", "p"), ("num", 1.0)), X), ("param", "q"))],
        [("bin", "*", ("bin", "*", ("param", "p"), X), Y), ("bin", "**", X, ("param", "q"))],
        [("bin", "+", ("lincomb", [1.0, 2.0, 3.0], v), ("bin", "*", ("param", "p"), ("velem", v, 1)))],
        [("bin", "*", ("un", "exp", ("param", "p")), ("dot", v, v))],
    ]
    fam = K.scalar_family(tier)
    if tier == "quick":
        rng = random.Random(5)
        fam = rng.sample(fam, 250)
    else:
        fam = random.Random(5).sample(fam, min(len(fam), 500))
    out += [[r] for r in fam]
    seen, uniq = set(), []
    for l in out:
        k = repr(l)
        if k not in seen:
            seen.add(k)
            uniq.append(l)
    return uniq


def items(tier, seed):
    fam = family(tier)
    if tier == "thorough":
        rr = K.random_recipes(seed, 120, 2)
        rng = random.Random(seed)
        fam += [[r] for r in rr[:60]] + [[rr[i], rr[i + 1]] for i in range(60, 118, 2)]
    its = [("twin", 0)] + [("ls", ch) for ch in K.chunks(fam, 3)]
    return its + K.touched_items(its, 3, ("ls",))


def observe(recipes, order, val):
    from optyx import Variable
    from optyx.core import compiler as C
    from optyx.core import autodiff as A
    b = K.Build(val)
    for r in recipes:
        for d in K.declare(r):
            (b.V if d[0] == "vec" else b.M)(d)
    es = [b.S(r) for r in recipes]
    if K.TOUCH:
        for e_ in es:
            K.touch(e_)
    decl = set(K.all_names(recipes)["vars"])
    V = [b.S(("var", n)) if n in decl else Variable(n) for n in order]
    x = np.empty(len(order), dtype=object)
    for i, n in enumerate(order):
        x[i] = val[n]
    if not any(hasattr(t, "t") for t in x):
        x = np.array([float(t) for t in x])
    point = {n: val[n] for n in order}
    out = {}
    names = {}

    def rec(name, fn):
        try:
            out[name] = fn()
        except Exception as ex:  # noqa: BLE001
            out[name] = ex

    def jac():
        f = A.compile_jacobian(es, V)
        names["compile_jacobian"] = f.__name__
        return np.asarray(f(x)).reshape(len(es), len(V))
    rec("compile_jacobian", jac)
    for i, e in enumerate(es):
        def grad(e=e, i=i):
            f = C.compile_gradient(e, V)
            names[f"compile_gradient[{i}]"] = f.__name__
            return np.asarray(f(x)).reshape(-1)
        rec(f"compile_gradient[{i}]", grad)
        rec(f"CompiledExpression.gradient[{i}]", lambda e=e: np.asarray(C.CompiledExpression(e, V).gradient(x)).reshape(-1))

        def jrow(e=e):
            row = e.jacobian_row(V)
            if row is None:
                return None
            return np.array([g.evaluate(point) for g in row], dtype=object)
        rec(f"jacobian_row[{i}]", jrow)
        rec(f"compute_jacobian[{i}]", lambda e=e: np.array([g.evaluate(point) for g in A.compute_jacobian([e], V)[0]], dtype=object))
    if b.params and all(n + "'" in val for n in b.params):
        # callables BUILT at the old parameter values, called after the parameters were updated
        fns = {}

        def mk(name, f):
            try:
                fns[name] = f()
            except Exception as ex:  # noqa: BLE001
                fns[name] = ex
        mk("upd:compile_jacobian", lambda: A.compile_jacobian(es, V))
        for i, e in enumerate(es):
            mk(f"upd:compile_gradient[{i}]", lambda e=e: C.compile_gradient(e, V))
            mk(f"upd:CompiledExpression.gradient[{i}]", lambda e=e: C.CompiledExpression(e, V).gradient)
            mk(f"upd:compute_jacobian[{i}]", lambda e=e: (lambda _x, row=A.compute_jacobian([e], V)[0]: np.array([g.evaluate(point) for g in row], dtype=object)))
        for n, p_ in b.params.items():
            p_.set(val[n + "'"])
        for name, f in fns.items():
            if isinstance(f, Exception):
                out[name] = f
            elif name == "upd:compile_jacobian":
                names[name] = f.__name__
                rec(name, lambda f=f: np.asarray(f(x)).reshape(len(es), len(V)))
            else:
                rec(name, lambda f=f: np.asarray(f(x)).reshape(-1))
    out["__names__"] = names
    return out


def check_list(recipes, planted=False):
    from vf.engine import smt
    from vf.engine.sym import SymbolicConcretisation
    res = []
    names = K.all_names(recipes)
    used = names["vars"]
    orders = K.variable_orders(used, tier=_TIER)
    allv = used + ["u0", "u1"] + names["syms"] + names["params"] + [n + "'" for n in names["params"]]
    val = K.sym_val(allv)
    val1 = {**val, **{n: val[n + "'"] for n in names["params"]}}
    # oracle rows per variable name (and, for the parameter-update observations, at the updated values)
    oracle, oracle_upd = {}, {}
    dom = []
    dom_upd = []
    for i, r in enumerate(recipes):
        for w in used:
            ref = Ref(K.dual_val(val, w), diff=1)
            oracle[(i, w)] = K.tangent(ref.S(r)) + (1.0 if planted else 0.0)
            dom += ref.dom
            if names["params"]:
                ref = Ref(K.dual_val(val1, w), diff=1)
                oracle_upd[(i, w)] = K.tangent(ref.S(r)) + (1.0 if planted else 0.0)
                dom_upd += ref.dom
    dom_upd = dom + dom_upd
    dom_plain, oracle_plain = dom, oracle
    shp = "+".join(K.shape(r, 3) for r in recipes)
    for order in orders:
        for dec, labels, pc, out in K.explore(lambda: observe(recipes, order, val), max_paths=200):
            nm = out.pop("__names__")
            for k, v in nm.items():
                PATHS_SEEN.add(v)
            for name_, got in out.items():
                upd = name_.startswith("upd:")
                name = name_[4:] if upd else name_
                oracle, dom = (oracle_upd, dom_upd) if upd else (oracle_plain, dom_plain)
                what = f"{name_} {show(recipes)[:100]} V={order}"
                payload = dict(kind="value", obs=name_, recipes=K.enc(recipes), order=order)
                if got is None:
                    continue
                if isinstance(got, SymbolicConcretisation):
                    res.append(K.vacuous_or_error(got, pc, dom, what, show(recipes)))
                    continue
                if isinstance(got, Exception):
                    res.append(violation(f"C03|{name.split('[')[0]}|raises:{type(got).__name__}|{shp}",
                                         f"{what} raises {type(got).__name__}: {str(got)[:100]}", dict(payload, kind="raises")))
                    continue
                rows = got if name == "compile_jacobian" else got.reshape(1, -1)
                idx0 = 0 if name == "compile_jacobian" else int(name[name.index("[") + 1:-1])
                if rows.shape[1] != len(order):
                    res.append(violation(f"C03|{name.split('[')[0]}|shape|{shp}", f"{what}: shape {rows.shape}", dict(payload, kind="raises")))
                    continue
                claims = []
                for ri in range(rows.shape[0]):
                    for j, w in enumerate(order):
                        o = oracle.get((idx0 + ri, w), 0.0 + (1.0 if planted else 0.0))
                        claims.append(smt.eq(rows[ri, j], o).t)
                import z3
                fp = nm.get(name_, "")
                sig = f"C03|{name_.split('[')[0]}|{fp}|wrong-entry|{shp}"
                res.append(K.decide(claims, pc, dom, what + (f" via {fp}" if fp else ""), sig, payload, allv, QT[_TIER]))
    return res


def check(item):
    kind, payload = item
    if kind == "touched":
        return K.run_touched(check, payload)
    if kind == "ls":
        out = K.safe_items(check_list, payload, show)
        out.append(dict(status="conformance", what="fast paths: " + ",".join(sorted(PATHS_SEEN)), points=0, paths=sorted(PATHS_SEEN)))
        return out
    if kind == "twin":
        out = []
        for l in [[("bin", "*", K.X, K.Y)], [("vsum", ("vpow", K.V3, 2))], [("vsum", K.V3), ("dot", K.V3, K.V3)]]:
            rr = check_list(l, planted=True)
            nv = sum(x["status"] == "violation" for x in rr)
            np_ = sum(x["status"] == "proved" for x in rr)
            if nv == 0 or np_ > 0:
                out.append(harness_error(f"reachability twin not refuted for {l}: {nv} refuted, {np_} proved"))
            else:
                out.append(dict(status="conformance", what=f"twin refuted {l}", points=1))
        return out
    raise ValueError(kind)


def shortcut_coverage(funcs, lines):
    return {}


def replay(payload):
    r_ = K.replay_touched(replay, payload)
    if r_ is not None:
        return r_
    recipes = K.dec(payload["recipes"])
    order = payload["order"]
    name = payload["obs"]
    names = K.all_names(recipes)
    allv = list(dict.fromkeys(names["vars"] + order + names["syms"] + names["params"] + [n + "'" for n in names["params"]]))
    upd = name.startswith("upd:")
    if payload["kind"] == "raises":
        out = observe(recipes, order, {n: 0.7 for n in allv})
        if isinstance(out[name], Exception):
            return True, f"{name} raises {type(out[name]).__name__}: {out[name]}"
        return False, "no exception on replay"
    base = name[4:] if upd else name
    idx0 = 0 if base == "compile_jacobian" else int(base[base.index("[") + 1:-1])
    for pt in K.candidate_points(allv, payload.get("values", {}), 13):
        try:
            with np.errstate(all="ignore"):
                out = observe(recipes, order, pt)
            got = out[name]
            if got is None or isinstance(got, Exception):
                continue
            rows = np.asarray(got, dtype=float)
            rows = rows if base == "compile_jacobian" else rows.reshape(1, -1)
            rpt = {**pt, **{n: pt[n + "'"] for n in names["params"]}} if upd else pt
            for ri in range(rows.shape[0]):
                for j, w in enumerate(order):
                    if w in names["vars"]:
                        with np.errstate(all="ignore"):
                            r, ok = K.concrete_ref(recipes[idx0 + ri], rpt, diff=1, wrt=w)
                            if upd and ok:
                                ok = K.concrete_ref(recipes[idx0 + ri], pt, diff=1, wrt=w)[1]
                        if not ok:
                            raise ValueError("irregular")
                        ref = float(K.tangent(r))
                    else:
                        ref = 0.0
                    g = float(rows[ri, j])
                    if np.isfinite(g) and np.isfinite(ref) and not K.close(g, ref, 1e-6, 1e-8):
                        return True, f"at {pt}: {name}[{ri}][{j}] (d/d{w}) = {g!r}, reference {ref!r}"
        except Exception:  # noqa: BLE001
            continue
    return False, "no numeric difference reproduced"
