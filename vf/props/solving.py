"""Running Problem.solve against the nondeterministic stubs S4/S5 and collecting
what was passed and what came back (shared by C06-C09, C12, C13, C18, C20)."""
from __future__ import annotations

import warnings

import numpy as np

from vf.engine import stubs
from vf.engine.recipes import Ref
from vf.props import common as K
from vf.props import lpmodels as LM


class Obs:
    """one solve call observed"""
    __slots__ = ("solution", "exc", "warnings", "mcalls", "lcalls", "problem", "build")


def solve_observe(model, val, method, mode="symbolic", strict=False, problem=None, build=None, mstub=None, lstub=None, **kw):
    if problem is None:
        problem, build = LM.build_model(model, val)
    ms = mstub or stubs.MinimizeStub(mode)
    ls = lstub or stubs.LinprogStub(mode)
    o = Obs()
    o.problem, o.build = problem, build
    with stubs.patched(ms, ls), warnings.catch_warnings(record=True) as w:
        warnings.simplefilter("always")
        try:
            o.solution = problem.solve(method=method, strict=strict, **kw) if strict else problem.solve(method=method, **kw)
            o.exc = None
        except Exception as e:  # noqa: BLE001
            o.solution = None
            o.exc = e
    o.warnings = [(x.category.__name__, str(x.message)) for x in w]
    o.mcalls, o.lcalls = ms.calls, ls.calls
    return o


def solve_observe_hist(model, val, method, hist, **kw):
    """solve_observe for the SECOND solve of a problem object that reached `model`
    through the edit history `hist` (first solve: fixed non-branching stubs, same method)"""
    p, b, finish = LM.build_model_staged(model, val, hist)
    with stubs.patched(stubs.MinimizeStub("fixed"), stubs.LinprogStub("fixed")), warnings.catch_warnings():
        warnings.simplefilter("ignore")
        try:
            p.solve(method=method)
        except Exception:  # noqa: BLE001
            pass
    finish()
    return solve_observe(model, val, method, problem=p, build=b, **kw)


def user_constraint_values(model, values):
    """[(sense, value, dom)] of the user's relations at `values` (reference)"""
    out = []
    for kind, lhs, rhs in model["cons"]:
        ref = Ref(values, diff=0)
        s, v = LM.con_ref(ref, kind, lhs, rhs)
        out.append((s, v, ref.dom))
    return out


def ref_objective(model, values):
    ref = Ref(values, diff=0)
    return ref.S(model["obj"]), ref.dom


def complete_values(model, val, sol_values):
    """valuation = returned values for the problem's variables, the model's
    data (symbolic constants, parameters) from val"""
    v = dict(val)
    v.update(sol_values)
    return v


HESS = {"trust-constr"}
# SciPy methods that take a bounds argument / that take no derivatives (SciPy's documentation)
BOUNDS_OK = {"L-BFGS-B", "TNC", "SLSQP", "Powell", "trust-constr", "Nelder-Mead"}
DERIVATIVE_FREE = {"Nelder-Mead", "Powell", "COBYLA", "COBYQA"}


def expected_auto(model):
    """documented rule: unconstrained -> L-BFGS-B; else SLSQP or trust-constr"""
    if not model["cons"]:
        return {"L-BFGS-B"}
    return {"SLSQP", "trust-constr"}


def K_bool(b):
    from vf.engine.sym import sbool_term
    return sbool_term(b)


def _xvec(cols, xv):
    x = np.empty(len(cols), dtype=object)
    for i, n in enumerate(cols):
        x[i] = xv[n]
    return x


def _dual_x(cols, xv, wrt, wrt2=None):
    dv = K.dual_val({n: xv[n] for n in cols}, wrt, wrt2)
    return _xvec(cols, dv)


def minimize_call_obligations(call, model, cols, val, pc, tag, form, method, PID, qt, allv, payload, planted=False, check_x0=True):
    """Everything C09 demands of ONE recorded scipy.optimize.minimize call (see _minimize_call_obligations);
    a recorded callable that raises is itself a violation."""
    from vf.engine.sym import SymbolicConcretisation
    from vf.props.common import violation
    try:
        return _minimize_call_obligations(call, model, cols, val, pc, tag, form, method, PID, qt, allv, payload, planted, check_x0)
    except SymbolicConcretisation:
        raise
    except (IndexError, KeyError, ValueError, TypeError, ZeroDivisionError) as e:
        return [violation(f"{PID}|callable-raises:{type(e).__name__}|{form}", f"{tag}: a callable handed to the solver raises {type(e).__name__}: {str(e)[:80]}", dict(payload, kind=("callable-raises" if PID == "C09" else "raises")))]


def shapes_wrong(call, n):
    """replay helper: shapes of what the recorded callables return, for n variables; -> message or None"""
    import numpy as np
    x = np.full(n, 0.7)
    with np.errstate(all="ignore"):
        try:
            if callable(call.get("jac")) and np.asarray(call["jac"](x)).size != n:
                return f"jac returns {np.asarray(call['jac'](x)).size} entries for {n} variables"
            if callable(call.get("hess")) and np.asarray(call["hess"](x)).shape != (n, n):
                return f"hess returns shape {np.asarray(call['hess'](x)).shape} for {n} variables"
            for k, cd in enumerate(call.get("constraints") or []):
                if isinstance(cd, dict) and callable(cd.get("jac")) and np.asarray(cd["jac"](x)).size != n:
                    return f"constraint {k} jac returns {np.asarray(cd['jac'](x)).size} entries for {n} variables"
        except Exception as e:  # noqa: BLE001
            return f"a recorded callable raises {type(e).__name__}: {e}"
    return None


def callables_raise(call, n):
    """replay helper: call every callable of a recorded minimize call at a few points; -> message or None"""
    import numpy as np
    for x in (np.full(n, 0.7), np.arange(1, n + 1, dtype=float) * 0.3):
        fns = [("fun", call.get("fun")), ("jac", call.get("jac")), ("hess", call.get("hess"))]
        for k, cd in enumerate(call.get("constraints") or []):
            if isinstance(cd, dict):
                fns += [(f"constraint {k} fun", cd.get("fun")), (f"constraint {k} jac", cd.get("jac"))]
        for name, f in fns:
            if callable(f):
                try:
                    with np.errstate(all="ignore"):
                        f(x)
                except Exception as e:  # noqa: BLE001
                    return f"{name} raises {type(e).__name__}: {e} at x={x.tolist()}"
    return None


def _minimize_call_obligations(call, model, cols, val, pc, tag, form, method, PID, qt, allv, payload, planted=False, check_x0=True):
    """Everything C09 demands of ONE recorded scipy.optimize.minimize call, for
    the model `model` under the valuation `val` (data and parameter values)."""
    from vf.engine import smt
    from vf.engine.sym import SReal, SymbolicConcretisation
    from vf.props.common import harness_error, inconclusive, proved, violation
    import z3
    res = []
    xv = {n: val[n] for n in cols}
    full = dict(val)
    x = _xvec(cols, xv)
    s = 1.0 if model["sense"] == "min" else -1.0
    pl = 1.0 if planted else 0.0
    # method
    mpassed = call["method"]
    okm = (mpassed in expected_auto(model)) if method == "auto" else (mpassed == method)
    res.append(proved(f"{tag}: method {mpassed}") if okm else
               violation(f"{PID}|method|{method}->{mpassed}", f"{tag}: minimize(method={mpassed!r})", dict(payload, kind="raises")))
    # objective value
    ref = Ref(full, 0)
    oref = ref.S(model["obj"])
    try:
        fx = call["fun"](x)
    except Exception as e:  # noqa: BLE001
        res.append(violation(f"{PID}|fun-raises|{form}", f"{tag}: fun raises {e}", dict(payload, kind="raises")))
        return res
    res.append(K.decide(smt.eq(fx, s * oref + pl), pc, ref.dom, f"{tag}: fun == {'+' if s > 0 else '-'}objective", f"{PID}|fun|{form}", dict(payload, ob="fun"), allv, qt))
    # gradient = derivative of fun itself
    dref = Ref(K.dual_val(full, cols[0]), 1)
    dref.S(model["obj"])
    ddom = dref.dom
    if call["jac"] is None and mpassed in DERIVATIVE_FREE:
        res.append(proved(f"{tag}: no jac for the derivative-free method {mpassed}"))
    elif call["jac"] is None:
        res.append(violation(f"{PID}|no-jac|{form}", f"{tag}: no jac passed", dict(payload, kind="raises")))
    else:
        try:
            g = np.asarray(call["jac"](x)).reshape(-1)
            if g.size != len(cols):
                res.append(violation(f"{PID}|jac-shape|{form}", f"{tag}: jac returns {g.size} entries for {len(cols)} variables", dict(payload, kind="shape")))
                return res
            claims = []
            for j, w in enumerate(cols):
                d = K.tangent(call["fun"](_dual_x(cols, xv, w)))
                claims.append(smt.eq(g[j], d + pl))
            res.append(K.decide(claims, pc, ddom, f"{tag}: jac == grad fun", f"{PID}|jac|{form}", dict(payload, ob="jac"), allv, qt))
        except SymbolicConcretisation as e:
            res.append(K.vacuous_or_error(e, pc, ddom, f"{tag}: jac", tag))
    # hessian
    want_h = mpassed in HESS
    if (call["hess"] is not None) != want_h:
        res.append(violation(f"{PID}|hess-presence|{mpassed}", f"{tag}: hess passed={call['hess'] is not None} for method {mpassed}", dict(payload, kind="raises")))
    elif call["hess"] is not None:
        try:
            H = np.asarray(call["hess"](x))
            if H.shape != (len(cols), len(cols)):
                res.append(violation(f"{PID}|hess-shape|{form}", f"{tag}: hess returns shape {H.shape} for {len(cols)} variables", dict(payload, kind="shape")))
                return res
            claims = []
            for i, wi in enumerate(cols):
                for j, wj in enumerate(cols):
                    d2 = K.second(call["fun"](_dual_x(cols, xv, wi, wj)))
                    claims.append(smt.eq(H[i, j], d2 + pl))
            res.append(K.decide(claims, pc, ddom, f"{tag}: hess == hess fun", f"{PID}|hess|{form}", dict(payload, ob="hess"), allv, qt))
        except SymbolicConcretisation as e:
            res.append(K.vacuous_or_error(e, pc, ddom, f"{tag}: hess", tag))
    # constraints
    cons = list(call["constraints"]) if call["constraints"] else []
    if len(cons) != len(model["cons"]):
        res.append(violation(f"{PID}|constraint-count|{form}", f"{tag}: {len(cons)} dicts for {len(model['cons'])} constraints", dict(payload, kind="raises")))
    else:
        for k, ((sense, v, dom), cd) in enumerate(zip(user_constraint_values(model, full), cons)):
            cf = cd["fun"](x)
            if sense == "<=":
                okt = cd["type"] == "ineq"
                claim = K_bool(cf >= 0) == K_bool(v <= 0)
            else:
                okt = cd["type"] == "eq"
                claim = K_bool(cf == 0) == K_bool(v == 0)
            if planted:
                claim = K_bool(cf >= 1) == K_bool(v <= 0)
            if not okt:
                res.append(violation(f"{PID}|constraint-type|{form}", f"{tag}: constraint {k} has type {cd['type']}", dict(payload, kind="raises")))
                return res
            res.append(K.decide(claim, pc, dom, f"{tag}: constraint {k} fun>=0 (==0) iff the user's relation", f"{PID}|constraint-fun|{form}|{model['cons'][k][0]}", dict(payload, ob=f"con{k}"), allv, qt))
            cdref = Ref(K.dual_val(full, cols[0]), 1)
            LM.con_ref(cdref, *model["cons"][k])
            try:
                g = np.asarray(cd["jac"](x)).reshape(-1)
                if g.size != len(cols):
                    res.append(violation(f"{PID}|constraint-jac-shape|{form}", f"{tag}: constraint {k} jac returns {g.size} entries for {len(cols)} variables", dict(payload, kind="shape")))
                    return res
                claims = [smt.eq(g[j], K.tangent(cd["fun"](_dual_x(cols, xv, w))) + pl) for j, w in enumerate(cols)]
                res.append(K.decide(claims, pc, cdref.dom, f"{tag}: constraint {k} jac == grad fun", f"{PID}|constraint-jac|{form}|{model['cons'][k][0]}", dict(payload, ob=f"conjac{k}"), allv, qt))
            except SymbolicConcretisation as e:
                res.append(K.vacuous_or_error(e, pc, cdref.dom, f"{tag}: constraint jac", tag))
    # bounds
    wantb = mpassed in BOUNDS_OK
    if (call["bounds"] is not None) != wantb:
        res.append(violation(f"{PID}|bounds-presence|{mpassed}", f"{tag}: bounds passed={call['bounds'] is not None} for {mpassed}", dict(payload, kind="raises")))
    elif call["bounds"] is not None:
        claims, bad = [], None
        for i, n in enumerate(cols):
            lb, ub = LM.declared_bounds(model, n, val)
            glb, gub = call["bounds"][i]
            for g, d, inf in ((glb, lb, -np.inf), (gub, ub, np.inf)):
                g_none = g is None or (isinstance(g, float) and g == inf)
                if g_none != (d is None):
                    bad = (n, g, d)
                elif not g_none:
                    claims.append(smt.eq(g, d))
        if bad:
            res.append(violation(f"{PID}|bounds|{form}", f"{tag}: bound of {bad[0]} passed {bad[1]} declared {bad[2]}", dict(payload, kind="raises")))
        else:
            res.append(K.decide(claims, pc, [], f"{tag}: bounds == declared", f"{PID}|bounds|{form}", dict(payload, ob="bounds"), allv, qt))
    # x0
    if not check_x0:
        return res
    x0 = call["x0"]
    hyp, claims = [], []
    for i, n in enumerate(cols):
        lb, ub = LM.declared_bounds(model, n, val)
        if lb is not None and ub is not None:
            hyp.append(K_bool(lb <= ub))
        if lb is not None:
            claims.append(x0[i] >= lb)
        if ub is not None:
            claims.append(x0[i] <= ub)
    if len(x0) != len(cols):
        res.append(violation(f"{PID}|x0-shape|{form}", f"{tag}: x0 has {len(x0)} entries", dict(payload, kind="raises")))
    elif claims:
        res.append(K.decide(claims, pc, hyp, f"{tag}: x0 inside bounds when lb<=ub", f"{PID}|x0|{form}", dict(payload, ob="x0"), allv, qt))
    return res


def lp_call_obligations(call, model, cols, val, pc, tag, form, PID, qt, allv, payload):
    """what C08 demands of ONE recorded linprog call: the passed rows / bounds describe the user's
    feasible set and the passed cost is the user's objective direction (symbolic data, all x)"""
    import z3
    from vf.engine import smt
    from vf.engine.sym import SReal, sbool_term
    from vf.props.common import proved, violation
    res = []
    if len(call["c"]) != len(cols) or any(n not in val for n in cols):
        return [violation(f"{PID}|lp-columns|{form}", f"{tag}: linprog got {len(call['c'])} columns, the model has variables {cols}", dict(payload, kind="raises"))]
    xs = [val[n] for n in cols]

    def dot(a, x):
        t = 0.0
        for u, v in zip(a, x):
            t = t + u * v
        return t
    yv = {n: SReal.var("y_" + n) for n in cols}
    val2 = dict(val)
    val2.update(yv)
    r1, r2 = Ref(val, 0), Ref(val2, 0)
    sgn = 1.0 if model["sense"] == "min" else -1.0
    lhs = dot(call["c"], xs) - dot(call["c"], [val2[n] for n in cols])
    rhs = sgn * (r1.S(model["obj"]) - r2.S(model["obj"]))
    res.append(K.decide(smt.eq(lhs, rhs), pc, r1.dom + r2.dom, f"{tag}: linprog cost == user's objective direction", f"{PID}|lp-cost|{form}",
                        dict(payload, ob="cost"), list(allv) + ["y_" + n for n in cols], qt))
    passed = []
    if call["A_ub"] is not None:
        for r in range(len(call["A_ub"])):
            passed.append(sbool_term(dot(call["A_ub"][r], xs) <= call["b_ub"][r]))
    if call["A_eq"] is not None:
        for r in range(len(call["A_eq"])):
            passed.append(sbool_term(dot(call["A_eq"][r], xs) == call["b_eq"][r]))
    bl = call["bounds"] if call["bounds"] is not None else [(0, None)] * len(cols)
    for i, (lb, ub) in enumerate(bl):
        if lb is not None:
            passed.append(sbool_term(xs[i] >= lb))
        if ub is not None:
            passed.append(sbool_term(xs[i] <= ub))
    user, dom = [], []
    for sense, v, d in user_constraint_values(model, val):
        user.append(sbool_term(v <= 0) if sense == "<=" else sbool_term(v == 0))
        dom += d
    for n in cols:
        lb, ub = LM.declared_bounds(model, n, val)
        if lb is not None:
            user.append(sbool_term(val[n] >= lb))
        if ub is not None:
            user.append(sbool_term(val[n] <= ub))
    P = z3.And(passed) if passed else z3.BoolVal(True)
    U = z3.And(user) if user else z3.BoolVal(True)
    res.append(K.decide(P == U, pc, dom, f"{tag}: linprog feasible set == user's feasible set", f"{PID}|lp-feasible-set|{form}", dict(payload, ob="feasible"), allv, qt))
    return res
