"""Running Problem.solve against the nondeterministic stubs S4/S5 and collecting
what was passed and what came back (shared by C06-C09, C12, C13, C18, C20)."""
from __future__ import annotations

import warnings

import numpy as np

from vf.engine import stubs
from vf.engine.recipes import Ref
from vf.props import common as K
from vf.props import lpmodels as LM


class Obs:
    """one solve call observed"""
    __slots__ = ("solution", "exc", "warnings", "mcalls", "lcalls", "problem", "build")


def solve_observe(model, val, method, mode="symbolic", strict=False, problem=None, build=None, mstub=None, lstub=None, **kw):
    if problem is None:
        problem, build = LM.build_model(model, val)
    ms = mstub or stubs.MinimizeStub(mode)
    ls = lstub or stubs.LinprogStub(mode)
    o = Obs()
    o.problem, o.build = problem, build
    with stubs.patched(ms, ls), warnings.catch_warnings(record=True) as w:
        warnings.simplefilter("always")
        try:
            o.solution = problem.solve(method=method, strict=strict, **kw) if strict else problem.solve(method=method, **kw)
            o.exc = None
        except Exception as e:  # noqa: BLE001
            o.solution = None
            o.exc = e
    o.warnings = [(x.category.__name__, str(x.message)) for x in w]
    o.mcalls, o.lcalls = ms.calls, ls.calls
    return o


def user_constraint_values(model, values):
    """[(sense, value, dom)] of the user's relations at `values` (reference)"""
    out = []
    for kind, lhs, rhs in model["cons"]:
        ref = Ref(values, diff=0)
        s, v = LM.con_ref(ref, kind, lhs, rhs)
        out.append((s, v, ref.dom))
    return out


def ref_objective(model, values):
    ref = Ref(values, diff=0)
    return ref.S(model["obj"]), ref.dom


def complete_values(model, val, sol_values):
    """valuation = returned values for the problem's variables, the model's
    data (symbolic constants, parameters) from val"""
    v = dict(val)
    v.update(sol_values)
    return v


HESS = {"trust-constr"}
BOUNDS_OK = {"L-BFGS-B", "SLSQP", "trust-constr"}


def expected_auto(model):
    """documented rule: unconstrained -> L-BFGS-B; else SLSQP or trust-constr"""
    if not model["cons"]:
        return {"L-BFGS-B"}
    return {"SLSQP", "trust-constr"}


def K_bool(b):
    from vf.engine.sym import sbool_term
    return sbool_term(b)


def _xvec(cols, xv):
    x = np.empty(len(cols), dtype=object)
    for i, n in enumerate(cols):
        x[i] = xv[n]
    return x


def _dual_x(cols, xv, wrt, wrt2=None):
    dv = K.dual_val({n: xv[n] for n in cols}, wrt, wrt2)
    return _xvec(cols, dv)


def minimize_call_obligations(call, model, cols, val, pc, tag, form, method, PID, qt, allv, payload, planted=False, check_x0=True):
    """Everything C09 demands of ONE recorded scipy.optimize.minimize call, for
    the model `model` under the valuation `val` (data and parameter values)."""
    from vf.engine import smt
    from vf.engine.sym import SReal, SymbolicConcretisation
    from vf.props.common import harness_error, inconclusive, proved, violation
    import z3
    res = []
    xv = {n: val[n] for n in cols}
    full = dict(val)
    x = _xvec(cols, xv)
    s = 1.0 if model["sense"] == "min" else -1.0
    pl = 1.0 if planted else 0.0
    # method
    mpassed = call["method"]
    okm = (mpassed in expected_auto(model)) if method == "auto" else (mpassed == method)
    res.append(proved(f"{tag}: method {mpassed}") if okm else
               violation(f"{PID}|method|{method}->{mpassed}", f"{tag}: minimize(method={mpassed!r})", dict(payload, kind="raises")))
    # objective value
    ref = Ref(full, 0)
    oref = ref.S(model["obj"])
    try:
        fx = call["fun"](x)
    except Exception as e:  # noqa: BLE001
        res.append(violation(f"{PID}|fun-raises|{form}", f"{tag}: fun raises {e}", dict(payload, kind="raises")))
        return res
    res.append(K.decide(smt.eq(fx, s * oref + pl), pc, ref.dom, f"{tag}: fun == {'+' if s > 0 else '-'}objective", f"{PID}|fun|{form}", dict(payload, ob="fun"), allv, qt))
    # gradient = derivative of fun itself
    dref = Ref(K.dual_val(full, cols[0]), 1)
    dref.S(model["obj"])
    ddom = dref.dom
    if call["jac"] is None:
        res.append(violation(f"{PID}|no-jac|{form}", f"{tag}: no jac passed", dict(payload, kind="raises")))
    else:
        try:
            g = np.asarray(call["jac"](x)).reshape(-1)
            claims = []
            for j, w in enumerate(cols):
                d = K.tangent(call["fun"](_dual_x(cols, xv, w)))
                claims.append(smt.eq(g[j], d + pl))
            res.append(K.decide(claims, pc, ddom, f"{tag}: jac == grad fun", f"{PID}|jac|{form}", dict(payload, ob="jac"), allv, qt))
        except SymbolicConcretisation as e:
            res.append(K.vacuous_or_error(e, pc, ddom, f"{tag}: jac", tag))
    # hessian
    want_h = mpassed in HESS
    if (call["hess"] is not None) != want_h:
        res.append(violation(f"{PID}|hess-presence|{mpassed}", f"{tag}: hess passed={call['hess'] is not None} for method {mpassed}", dict(payload, kind="raises")))
    elif call["hess"] is not None:
        try:
            H = np.asarray(call["hess"](x))
            claims = []
            for i, wi in enumerate(cols):
                for j, wj in enumerate(cols):
                    d2 = K.second(call["fun"](_dual_x(cols, xv, wi, wj)))
                    claims.append(smt.eq(H[i, j], d2 + pl))
            res.append(K.decide(claims, pc, ddom, f"{tag}: hess == hess fun", f"{PID}|hess|{form}", dict(payload, ob="hess"), allv, qt))
        except SymbolicConcretisation as e:
            res.append(K.vacuous_or_error(e, pc, ddom, f"{tag}: hess", tag))
    # constraints
    cons = list(call["constraints"]) if call["constraints"] else []
    if len(cons) != len(model["cons"]):
        res.append(violation(f"{PID}|constraint-count|{form}", f"{tag}: {len(cons)} dicts for {len(model['cons'])} constraints", dict(payload, kind="raises")))
    else:
        for k, ((sense, v, dom), cd) in enumerate(zip(user_constraint_values(model, full), cons)):
            cf = cd["fun"](x)
            if sense == "<=":
                okt = cd["type"] == "ineq"
                claim = K_bool(cf >= 0) == K_bool(v <= 0)
            else:
                okt = cd["type"] == "eq"
                claim = K_bool(cf == 0) == K_bool(v == 0)
            if planted:
                claim = K_bool(cf >= 1) == K_bool(v <= 0)
            if not okt:
                res.append(violation(f"{PID}|constraint-type|{form}", f"{tag}: constraint {k} has type {cd['type']}", dict(payload, kind="raises")))
                return res
            res.append(K.decide(claim, pc, dom, f"{tag}: constraint {k} fun>=0 (==0) iff the user's relation", f"{PID}|constraint-fun|{form}|{model['cons'][k][0]}", dict(payload, ob=f"con{k}"), allv, qt))
            cdref = Ref(K.dual_val(full, cols[0]), 1)
            LM.con_ref(cdref, *model["cons"][k])
            try:
                g = np.asarray(cd["jac"](x)).reshape(-1)
                claims = [smt.eq(g[j], K.tangent(cd["fun"](_dual_x(cols, xv, w))) + pl) for j, w in enumerate(cols)]
                res.append(K.decide(claims, pc, cdref.dom, f"{tag}: constraint {k} jac == grad fun", f"{PID}|constraint-jac|{form}|{model['cons'][k][0]}", dict(payload, ob=f"conjac{k}"), allv, qt))
            except SymbolicConcretisation as e:
                res.append(K.vacuous_or_error(e, pc, cdref.dom, f"{tag}: constraint jac", tag))
    # bounds
    wantb = mpassed in BOUNDS_OK
    if (call["bounds"] is not None) != wantb:
        res.append(violation(f"{PID}|bounds-presence|{mpassed}", f"{tag}: bounds passed={call['bounds'] is not None} for {mpassed}", dict(payload, kind="raises")))
    elif call["bounds"] is not None:
        claims, bad = [], None
        for i, n in enumerate(cols):
            lb, ub = LM.declared_bounds(model, n, val)
            glb, gub = call["bounds"][i]
            for g, d, inf in ((glb, lb, -np.inf), (gub, ub, np.inf)):
                g_none = g is None or (isinstance(g, float) and g == inf)
                if g_none != (d is None):
                    bad = (n, g, d)
                elif not g_none:
                    claims.append(smt.eq(g, d))
        if bad:
            res.append(violation(f"{PID}|bounds|{form}", f"{tag}: bound of {bad[0]} passed {bad[1]} declared {bad[2]}", dict(payload, kind="raises")))
        else:
            res.append(K.decide(claims, pc, [], f"{tag}: bounds == declared", f"{PID}|bounds|{form}", dict(payload, ob="bounds"), allv, qt))
    # x0
    if not check_x0:
        return res
    x0 = call["x0"]
    hyp, claims = [], []
    for i, n in enumerate(cols):
        lb, ub = LM.declared_bounds(model, n, val)
        if lb is not None and ub is not None:
            hyp.append(K_bool(lb <= ub))
        if lb is not None:
            claims.append(x0[i] >= lb)
        if ub is not None:
            claims.append(x0[i] <= ub)
    if len(x0) != len(cols):
        res.append(violation(f"{PID}|x0-shape|{form}", f"{tag}: x0 has {len(x0)} entries", dict(payload, kind="raises")))
    elif claims:
        res.append(K.decide(claims, pc, hyp, f"{tag}: x0 inside bounds when lb<=ub", f"{PID}|x0|{form}", dict(payload, ob="x0"), allv, qt))
    return res
