"""Running Problem.solve against the nondeterministic stubs S4/S5 and collecting
what was passed and what came back (shared by C06-C09, C12, C13, C18, C20)."""
from __future__ import annotations

import warnings

import numpy as np

from vf.engine import stubs
from vf.engine.recipes import Ref
from vf.props import common as K
from vf.props import lpmodels as LM


class Obs:
    """one solve call observed"""
    __slots__ = ("solution", "exc", "warnings", "mcalls", "lcalls", "problem", "build")


def solve_observe(model, val, method, mode="symbolic", strict=False, problem=None, build=None, mstub=None, lstub=None, **kw):
    if problem is None:
        problem, build = LM.build_model(model, val)
    ms = mstub or stubs.MinimizeStub(mode)
    ls = lstub or stubs.LinprogStub(mode)
    o = Obs()
    o.problem, o.build = problem, build
    with stubs.patched(ms, ls), warnings.catch_warnings(record=True) as w:
        warnings.simplefilter("always")
        try:
            o.solution = problem.solve(method=method, strict=strict, **kw) if strict else problem.solve(method=method, **kw)
            o.exc = None
        except Exception as e:  # noqa: BLE001
            o.solution = None
            o.exc = e
    o.warnings = [(x.category.__name__, str(x.message)) for x in w]
    o.mcalls, o.lcalls = ms.calls, ls.calls
    return o


def user_constraint_values(model, values):
    """[(sense, value, dom)] of the user's relations at `values` (reference)"""
    out = []
    for kind, lhs, rhs in model["cons"]:
        ref = Ref(values, diff=0)
        s, v = LM.con_ref(ref, kind, lhs, rhs)
        out.append((s, v, ref.dom))
    return out


def ref_objective(model, values):
    ref = Ref(values, diff=0)
    return ref.S(model["obj"]), ref.dom


def complete_values(model, val, sol_values):
    """valuation = returned values for the problem's variables, the model's
    data (symbolic constants, parameters) from val"""
    v = dict(val)
    v.update(sol_values)
    return v
