"""Shared machinery of the property modules: valuations, the exploration
wrapper, recipe generators, concrete (float) helpers for replays."""
from __future__ import annotations

import itertools
import math
import random
from fractions import Fraction

import numpy as np

from vf.engine import recipes as R
from vf.engine.dual import Dual, tangent
from vf.engine.recipes import ALL_UNARY, Build, Ref, declare, free_names, kind_of
from vf.framework import harness_error, inconclusive, proved, violation  # noqa: F401

# --------------------------------------------------------------------------
# valuations
# --------------------------------------------------------------------------


def sym_val(names):
    from vf.engine.sym import SReal
    return {n: SReal.var(n) for n in names}


def all_names(recipe_or_list):
    acc = None
    rs = recipe_or_list if isinstance(recipe_or_list, list) else [recipe_or_list]
    for r in rs:
        acc = free_names(r, acc)
    return acc


def dual_val(val, wrt, wrt2=None):
    """valuation with dual numbers seeded on `wrt` (and nested on wrt2).
    Only the differentiation variables become dual numbers; every other name
    (other variables, symbolic constants, parameters) stays a plain number, so
    constant exponents / coefficients use the constant rules."""
    out = dict(val)
    if wrt2 is None:
        if wrt in val:
            out[wrt] = Dual(val[wrt], 1.0)
        return out
    for n in {wrt, wrt2}:
        if n not in val:
            continue
        inner = Dual(val[n], 1.0 if n == wrt2 else 0.0)
        out[n] = Dual(inner, Dual(1.0 if n == wrt else 0.0, 0.0))
    return out


def second(x):
    """d2/dwrt dwrt2 component of a nested-dual result"""
    if isinstance(x, Dual):
        d = x.d
        if isinstance(d, Dual):
            return d.d
        return 0.0
    return 0.0


def shape(r, depth=6):
    """stable shape class of a recipe: op heads only (constants/names dropped)"""
    if not isinstance(r, tuple) or not r:
        if isinstance(r, list):
            return "[" + ",".join(shape(e, depth - 1) for e in r[:4]) + "]"
        return "#"
    k = r[0]
    if k in ("var",):
        return "v"
    if k in ("const", "num", "sc"):
        c = r[1]
        if isinstance(c, tuple):
            return "c"
        return {0: "0", 1: "1"}.get(c, "k") if not isinstance(c, float) or c.is_integer() else "q"
    if k in ("param", "pdup"):
        return "p"
    if k in ("vec", "mat"):
        return k
    if k in ("arr", "lst", "arr2", "lst2", "sym"):
        return k
    if depth <= 0:
        return k
    parts = []
    for e in r[1:]:
        if isinstance(e, str):
            parts.append(e)
        elif isinstance(e, tuple) and e and not isinstance(e[0], str):
            parts.append("#")
        elif isinstance(e, (tuple, list)):
            parts.append(shape(e, depth - 1))
    return k + "(" + ",".join(parts) + ")"


# --------------------------------------------------------------------------
# concrete points for replays / conformance
# --------------------------------------------------------------------------
def fr(x):
    return str(Fraction(x)) if not isinstance(x, str) else x


def float_val(values):
    return {k: float(Fraction(v)) for k, v in values.items()}


def random_point(names, rng, lo=0.3, hi=1.7):
    return {n: rng.uniform(lo, hi) * (1 if rng.random() < 0.75 else -1) for n in names}


def close(a, b, rtol=1e-7, atol=1e-9):
    try:
        a = float(a)
        b = float(b)
    except Exception:
        return False
    if math.isnan(a) or math.isnan(b):
        return math.isnan(a) and math.isnan(b)
    if math.isinf(a) or math.isinf(b):
        return a == b
    return abs(a - b) <= atol + rtol * max(abs(a), abs(b))


def in_dom(dom):
    """concrete domain conditions are python bools (or SBool const)"""
    for c in dom:
        if isinstance(c, (bool, np.bool_)):
            if not c:
                return False
        else:
            try:
                if not bool(c):
                    return False
            except Exception:
                return False
    return True


def concrete_ref(recipe, values, diff=0, wrt=None, wrt2=None):
    """float reference value / derivative and whether the point is regular"""
    val = dict(values)
    if wrt is not None:
        val = dual_val(val, wrt, wrt2)
    ref = Ref(val, diff=diff)
    with np.errstate(all="ignore"):
        out = getattr(ref, kind_of(recipe))(recipe)
    ok = in_dom(ref.dom)
    return out, ok


def candidate_points(names, model_values, seed, n=12):
    """the solver's point first, then seeded perturbations / random points"""
    pts = []
    base = {k: float(Fraction(v)) for k, v in model_values.items()}
    for nme in names:
        base.setdefault(nme, 0.0)
    pts.append(dict(base))
    rng = random.Random(seed)
    for i in range(n):
        if i < n // 2:
            pts.append({k: v + rng.uniform(-0.25, 0.25) for k, v in base.items()})
        else:
            pts.append(random_point(list(base), rng))
    return pts


# --------------------------------------------------------------------------
# exploration wrapper
# --------------------------------------------------------------------------
def explore(fn, max_paths=4000, branch_timeout_ms=1500, base=(), clear_caches=True):
    from vf.engine import npshim
    from vf.engine.sym import Explorer
    ex = Explorer(max_paths=max_paths, branch_timeout_ms=branch_timeout_ms, base=base)
    if clear_caches:
        ex.on_path_start = npshim.clear_optyx_caches
    yield from ex.explore(fn)


def path_sig(labels):
    """short stable signature of the decisions of a path"""
    out = []
    for l in labels:
        if l[0] == "c":
            out.append(f"{l[1]}={l[2]}")
    return ";".join(out)


def exc_sig(e):
    return f"{type(e).__name__}"


# --------------------------------------------------------------------------
# recipe generators (bounded families; sizes are counted in the evidence)
# --------------------------------------------------------------------------
X, Y, Z = ("var", "x"), ("var", "y"), ("var", "z")
C = ("const", ("sym", "c"))
C2 = ("const", ("sym", "c2"))
P = ("param", "p")
BINOPS = ["+", "-", "*", "/", "**"]
V3 = ("vec", "v", 3)
W3 = ("vec", "w", 3)


def vec_nodes(n=3, full=True):
    """scalar reductions of vector / matrix expressions (every node kind)"""
    v = ("vec", "v", n)
    w = ("vec", "w", n)
    cs = [("sym", "k0"), 2.0, -1.0, 0.5, 3.0, 0.0][:n]
    Q = [[("sym", "q00") if (i, j) == (0, 0) else float(1 + ((i * 3 + j * 5) % 4) - 1) for j in range(n)] for i in range(n)]
    out = [
        ("vsum", v),
        ("lincomb", cs, v),
        ("dot", v, v),
        ("dot", v, w),
        ("norm", v, 2),
        ("norm", v, 1),
        ("quad", v, Q),
        ("vsum", ("vpow", v, 2)),
        ("vsum", ("vpow", v, 3)),
        ("vsum", ("vun", "sin", v)),
        ("vsum", ("vbin", "*", v, w)),
        ("vsum", ("vbin", "+", v, ("sc", ("sym", "c")))),
    ]
    if n >= 3:
        out.append(("dot", ("slice", v, 0, n - 1, None), ("slice", v, 1, n, None)))
        out.append(("dot", ("slice", v, 0, n, None), ("slice", v, None, None, -1)))
    if full:
        A = [[1.0, 2.0], [0.0, ("sym", "a11")], [3.0, -1.0]]
        M = ("mat", "A", 2, 2)
        out += [
            ("lincomb", cs, v, "right"),
            ("lincomb", cs, ("vbin", "+", v, ("sc", 1.0))),
            ("dot", ("vbin", "*", v, ("sc", 2.0)), w),
            # one operand a plain vector, the other an expression over the SAME vector
            ("dot", v, ("vbin", "*", v, ("sc", 2.0))),
            ("dot", ("vbin", "+", v, w), v),
            ("dot", v, ("vbin", "-", v, ("arr", cs))),
            ("dot", ("slice", v, None, None, -1), ("vbin", "*", v, w), "matmul"),
            ("lincomb", cs, ("vbin", "*", v, v) if False else ("vbin", "*", v, ("sc", ("sym", "c")))),
            ("dot", v, ("matvec", [[(("sym", "a11") if (i, j) == (1, 1) else float(((i * 2 + j * 3) % 5) - 2)) for j in range(n)] for i in range(n)], v)),
            ("quad", v, Q, "dot"),
            ("norm", ("vbin", "-", v, w), 2),
            ("norm", ("vbin", "*", v, ("sc", 3.0)), 1),
            ("quad", ("vbin", "+", v, w), Q),
            ("vsum", ("vpow", v, 1)),
            ("vsum", ("vpow", v, 0.5)),
            ("vsum", ("vpow", v, -1)),
            ("vsum", ("vpow", v, 2.5)),
            ("vsum", ("slice", v, 0, None, 2)),
            ("vsum", ("slice", v, None, None, -1)),
            ("vsum", ("vneg", v)),
            ("vsum", ("vrbin", "-", ("sc", 1.0), v)),
            ("vsum", ("vrbin", "/", ("sc", 1.0), v)),
            ("vsum", ("vbin", "/", v, ("sc", 2.0))),
            ("vsum", ("vbin", "**", ("vbin", "+", v, w), ("sc", 2))),
            ("vsum", ("vun", "exp", ("vbin", "*", v, ("sc", 2.0)))),
            ("vsum", ("matvec", A, ("slice", v, 0, 2, None))) if n >= 2 else ("vsum", v),
            ("velem", ("vbin", "*", v, w), 1),
            ("velem", ("matvec", A, ("slice", v, 0, 2, None)), 1) if n >= 2 else ("vsum", v),
            ("msum", M),
            ("msum", ("mbin", "*", M, ("mT", M))),
            ("msum", ("mat", "S", 2, 2, True)),
            ("fro", M),
            ("fro", ("mat", "S", 2, 2, True)),
            ("fro", ("mT", ("mat", "B", 2, 3))),
            # norms / sums of matrix EXPRESSIONS (elements are arbitrary expressions)
            ("fro", ("mbin", "*", M, ("sc", 2.0))),
            ("fro", ("mbin", "-", M, ("arr2", [[1.0, 2.0], [3.0, ("sym", "c")]]))),
            ("msum", ("mbin", "-", M, ("arr2", [[1.0, 2.0], [3.0, ("sym", "c")]]))),
            ("msum", ("mslice", ("mat", "B", 2, 3), (0, 2, None), (1, 3, None))),
            ("trace", M),
            ("trace", ("mat", "S", 2, 2, True), "func"),
            ("vsum", ("mrow", M, 1)),
            ("dot", ("mcol", M, 0), ("mdiag", M)),
            ("vsum", ("Mmatvec", M, ("slice", v, 0, 2, None))) if n >= 2 else ("vsum", v),
            ("melem", ("mbin", "+", M, ("arr2", [[1.0, 2.0], [3.0, ("sym", "c")]])), 1, 1),
        ]
        # sub-matrix views of a SYMMETRIC matrix (shared entries: principal block, off-diagonal block,
        # whole-span slice, reversed axis, transposes of those)
        T3 = ("mat", "T", 3, 3, True)
        al = (None, None, None)
        out += [
            ("msum", ("mslice", T3, (0, 2, None), (0, 2, None))),
            ("msum", ("mslice", T3, (0, 2, None), (1, 3, None))),
            ("fro", ("mslice", T3, (0, 2, None), (1, 3, None))),
            ("fro", ("mslice", T3, al, al)),
            ("msum", ("mT", ("mslice", T3, (None, None, -1), al))),
            ("msum", ("mbin", "*", ("mslice", T3, (None, None, -1), al), ("mT", ("mslice", T3, (None, None, -1), al)))),
            ("msum", ("mbin", "*", ("mslice", T3, (1, 3, None), (0, 2, None)), ("arr2", [[1.0, 2.0], [3.0, ("sym", "c")]]))),
            ("vsum", ("mrow", ("mT", ("mslice", T3, al, (None, None, -1))), 0)),
            # quadratic forms whose matrix has another dtype (boolean adjacency mask, unsigned integers)
            ("quad", v, [[float((i <= j) or (i == n - 1 and j == 0)) for j in range(n)] for i in range(n)], "bool"),
            ("quad", v, [[float((i * 2 + j) % 3) for j in range(n)] for i in range(n)], "uint8"),
            # a small SIGNED integer matrix whose entries are large for its type (Q + Q.T must not wrap around)
            ("quad", v, [[float(100 if i == j else (3 if i < j else 1)) for j in range(n)] for i in range(n)], "int8"),
            # x.dot(Q @ y) where x and y are different views that PRINT alike (quadratic-form pattern match)
            ("dot", ("slice", v, 0, n, None), ("matvec", [[(("sym", "a11") if (i, j) == (1, 1) else float(((i * 2 + j * 3) % 5) - 2)) for j in range(n)] for i in range(n)], ("slice", v, None, None, -1))),
            ("dot", ("mrowpart", ("mat", "R", 1, 4), 0, (0, 2, None)), ("matvec", [[1.0, 2.0], [("sym", "a11"), 4.0]], ("mrowpart", ("mat", "R", 1, 4), 0, (2, 4, None)))),
            # a constant vector applied to a matrix-vector product from the right / the left
            ("lincomb", [("sym", "k0"), 2.0, -1.0], ("matvec", A, ("slice", v, 0, 2, None)), "right") if n >= 2 else ("vsum", v),
            ("lincomb", [2.0, ("sym", "k0"), -1.0], ("matvec", A, ("slice", v, 0, 2, None))) if n >= 2 else ("vsum", v),
            # Python lists on the LEFT of matrix / vector operators
            ("msum", ("mrbin", "/", ("lst2", [[1.0, 2.0], [3.0, ("sym", "c")]]), M)),
            ("msum", ("mrbin", "*", ("lst2", [[1.0, 2.0], [3.0, ("sym", "c")]]), ("mbin", "+", M, ("sc", 2.0)))),
            ("vsum", ("vrbin", "/", ("lst", cs), v)),
            ("vsum", ("vrbin", "-", ("lst", cs), ("vbin", "*", v, ("sc", 2.0)))),
        ]
        for op in R.VEC_UNARY:
            out.append(("vsum", ("vun", op, v)))
    seen = []
    for r in out:
        if r not in seen:
            seen.append(r)
    return seen


def scalar_family(tier):
    """Bounded family of scalar recipes (depth <= 2 quick, <= 3 thorough)."""
    out = []
    A0 = [X, Y, ("num", 2.0), C, P, ("const", 0.0), ("const", 1.0)]
    # depth 1
    for op in ALL_UNARY:
        out.append(("un", op, X))
    for op in BINOPS:
        for a in A0:
            for b in A0:
                if a[0] in ("num", "const") and b[0] in ("num", "const"):
                    continue
                if a[0] == "num" and b[0] == "num":
                    continue
                out.append(("bin", op, a, b))
    # powers with every exponent class
    for k in (0, 1, 2, 3, -1, -2, 0.5, 2.5, ("sym", "n")):
        for e in (X, ("bin", "+", X, Y), ("un", "sin", X), ("bin", "*", X, Y)):
            out.append(("bin", "**", e, ("const", k)))
    # depth 2: unary over binary, binary over unary, unary over unary
    inner = [("bin", "*", X, Y), ("bin", "+", X, C), ("bin", "/", X, Y), ("bin", "-", ("num", 1.0), X)]
    for op in ALL_UNARY:
        for e in inner:
            out.append(("un", op, e))
    for f in ALL_UNARY:
        for op in BINOPS:
            for g in (Y, C, X):
                out.append(("bin", op, ("un", f, X), g))
                out.append(("bin", op, g, ("un", f, X)))
    for f in ALL_UNARY:
        for g in ALL_UNARY:
            out.append(("un", f, ("un", g, X)))
    for op1 in BINOPS:
        for op2 in BINOPS:
            for z in (X, C, ("num", 2.0), Z):
                out.append(("bin", op1, ("bin", op2, X, Y), z))
                out.append(("bin", op1, z, ("bin", op2, X, Y)))
    # sub-trees without variables (functions of parameters / constants only) and parameters in
    # every operand position
    for op in ALL_UNARY:
        out.append(("bin", "*", ("un", op, P), X))
        out.append(("bin", "+", ("un", op, ("bin", "*", P, ("num", 0.5))), ("un", op, X)))
    for op in BINOPS:
        out.append(("bin", "+", ("bin", op, P, ("param", "q")), X))
        out.append(("bin", op, ("bin", "+", X, Y), ("bin", "*", P, ("param", "q"))))
    out += [("bin", "**", ("bin", "+", X, Y), P), ("bin", "**", P, ("bin", "*", X, Y)), ("un", "exp", ("un", "neg", ("bin", "*", P, P)))]
    # nested constant powers ((u**k1)**k2 is |u|**(k1*k2) for even k1, not u**(k1*k2))
    for e in (("bin", "-", X, Y), X):
        for k1 in (2, 3):
            for k2 in (1.5, 0.5, 2, -1):
                out.append(("bin", "**", ("bin", "**", e, ("const", k1)), ("const", k2)))
                out.append(("bin", "+", ("bin", "**", ("bin", "**", e, ("const", k1)), ("const", k2)), ("bin", "*", X, Y)))
    # two DIFFERENT Parameter objects that carry the same name (own values) inside one expression
    D0, D1 = ("pdup", "p", 0), ("pdup", "p", 1)
    out += [("bin", "+", ("bin", "*", D0, X), ("bin", "*", D1, Y)), ("bin", "-", ("un", "exp", ("bin", "*", D0, X)), ("un", "exp", ("bin", "*", D1, X))),
            ("bin", "+", ("bin", "*", P, X), ("bin", "*", D1, ("bin", "*", X, Y))), ("bin", "/", ("bin", "+", X, D0), ("bin", "+", Y, D1)),
            ("bin", "**", ("bin", "+", X, D0), ("const", 2)), ("bin", "+", ("bin", "**", ("bin", "+", X, D0), ("const", 2)), ("bin", "**", ("bin", "+", X, D1), ("const", 2)))]
    # vector / matrix reductions alone and composed with scalars
    vn = vec_nodes(3, full=True)
    out += vn
    for r in vn:
        out.append(("bin", "+", r, X))
        out.append(("bin", "*", C, r))
        out.append(("bin", "*", r, ("num", 2.0)))
        out.append(("bin", "-", ("num", 1.0), r))
        out.append(("un", "neg", r))
    for r in vn[:14]:
        out.append(("un", "exp", r))
        out.append(("bin", "/", X, r))
        out.append(("bin", "**", r, ("const", 2)))
        out.append(("bin", "*", r, vn[0]))
    if tier == "thorough":
        for f in ALL_UNARY:
            for op in BINOPS:
                for e in inner:
                    out.append(("bin", op, ("un", f, e), Y))
                    out.append(("un", f, ("bin", op, e, ("un", "cos", Y))))
        for r in vn:
            for f in ALL_UNARY:
                out.append(("un", f, r))
            for op in BINOPS:
                for r2 in vn[:8]:
                    out.append(("bin", op, r, r2))
        for n in (1, 2, 4, 5):
            out += vec_nodes(n, full=(n >= 2))
    seen = set()
    uniq = []
    for r in out:
        k = repr(r)
        if k not in seen:
            seen.add(k)
            uniq.append(r)
    return uniq


def random_recipes(seed, count, depth=3):
    rng = random.Random(seed)
    vn = vec_nodes(3, full=True)

    def gen(d):
        if d == 0 or rng.random() < 0.2:
            return rng.choice([X, Y, Z, C, P, ("num", rng.choice([2.0, -1.0, 0.5, 3.0])), rng.choice(vn)])
        if rng.random() < 0.45:
            return ("un", rng.choice(ALL_UNARY), gen(d - 1))
        op = rng.choice(BINOPS)
        if op == "**" and rng.random() < 0.7:
            return ("bin", "**", gen(d - 1), ("const", rng.choice([0, 1, 2, 3, -1, 0.5])))
        return ("bin", op, gen(d - 1), gen(d - 1))

    def pure_number(r):
        """no Expression below r: the API would compute a Python number (possibly complex), not build a tree"""
        if r[0] in ("num",):
            return True
        if r[0] == "bin":
            return pure_number(r[2]) and (r[3][0] == "const" and not isinstance(r[3][1], tuple) or pure_number(r[3]))
        return False

    def has_pure_power(r):
        """a sub-term number ** number (e.g. (-1.0) ** 0.5 is complex in Python): not a formula over the reals"""
        if not isinstance(r, tuple) or not r or not isinstance(r[0], str):
            return False
        if r[0] == "bin" and r[1] == "**" and pure_number(r[2]):
            return True
        return any(has_pure_power(e) for e in r[1:] if isinstance(e, tuple))

    out = []
    while len(out) < count:
        r = gen(depth)
        if pure_number(r) or has_pure_power(r):
            continue
        out.append(r)
    return out


def variable_orders(used, extra=("u0", "u1"), tier="quick"):
    """every permutation of the used variables (|V| <= 3), plus supersets with
    unused variables inserted front / middle / back"""
    used = list(used)
    orders = []
    if len(used) <= 3:
        perms = list(itertools.permutations(used))
    else:
        perms = [tuple(used), tuple(reversed(used)), tuple(used[1:] + used[:1])]
    orders += [list(p) for p in perms]
    base = list(perms[0])
    e0 = extra[0]
    orders.append([e0] + base)
    orders.append(base + [e0])
    if len(base) >= 2:
        orders.append(base[:1] + [e0] + base[1:])
    if len(base) >= 3:
        # an unused variable INSIDE a permuted block: the positions of the used variables are neither contiguous nor
        # monotone (first and last may still be exactly len-1 apart)
        b = base
        orders += [[b[0], e0, b[2], b[1]] + b[3:], [b[2], b[0], e0, b[1]] + b[3:], [b[1], e0, b[0], b[2]] + b[3:]]
    if tier == "thorough":
        e1 = extra[1]
        if len(base) == 3:
            for pm in perms:
                for pos in (1, 2):
                    orders.append(list(pm[:pos]) + [e0] + list(pm[pos:]))
        orders.append([e0] + base + [e1])
        orders.append(list(reversed(base)) + [e1])
        if len(base) >= 2:
            orders.append(base[:1] + [e0, e1] + base[1:])
    uniq = []
    for o in orders:
        if o not in uniq:
            uniq.append(o)
    return uniq


def enc(r):
    """recipes travel through JSON as their repr (tuples vs lists preserved)"""
    return repr(r)


def dec(s):
    import ast
    return ast.literal_eval(s) if isinstance(s, str) else s


def chunks(lst, n):
    return [lst[i:i + n] for i in range(0, len(lst), n)]


# --------------------------------------------------------------------------
# deciding one obligation
# --------------------------------------------------------------------------
DEFER = None   # when a list: decide() only records the obligation (discharged later under the path's FINAL condition)


def discharge_deferred(deferred, pc):
    out = []
    for (claim, dom, what, sig, payload, allv, qt, weak_sat) in deferred:
        out.append(decide(claim, pc, dom, what, sig, payload, allv, qt, weak_sat))
    return out


def decide(claim, pc, dom, what, sig, payload, allv, qt, weak_sat=False):
    """valid? -> proved / violation(with model values) / inconclusive.
    `claim` may be a list of claims: the conjunction is tried first and, when
    the solver gives up on it, each conjunct separately."""
    import z3
    from vf.engine import smt
    from vf.engine.sym import sbool_term
    if DEFER is not None:
        DEFER.append((claim, list(dom), what, sig, payload, list(allv), qt, weak_sat))
        return dict(status="deferred", what=what)
    claims = None
    if isinstance(claim, (list, tuple)):
        claims = [sbool_term(c) for c in claim]
        claim = z3.And(claims) if len(claims) != 1 else claims[0]
        if not claims:
            return proved(what)
    v = smt.valid(claim, pc, dom, timeout_ms=qt if not claims or len(claims) == 1 else min(qt, 5000), weak_sat=weak_sat)
    if v.status == "unknown" and claims and len(claims) > 1:
        worst = "unsat"
        for c in claims:
            v = smt.valid(c, pc, dom, timeout_ms=qt, weak_sat=weak_sat)
            if v.status == "sat":
                break
            if v.status == "unknown":
                worst = "unknown"
        if v.status != "sat" and worst == "unknown":
            return inconclusive("unknown: " + what)
    if v.status == "unsat":
        return proved(what)
    if v.status == "sat":
        mv = smt.model_values(v.model, allv)
        pl = dict(payload)
        pl["values"] = {k: str(x) for k, x in mv.items()}
        if v.alt_model is not None:
            pl["values_alt"] = {k: str(x) for k, x in smt.model_values(v.alt_model, allv).items()}
        r = violation(sig, what, pl)
        if v.solver.endswith("weak"):
            r["weak"] = True
        if v.tiny:
            r["rounding_level"] = True
        return r
    return inconclusive("unknown: " + what)


def vacuous_or_error(exc, pc, dom, what, item):
    """A concretisation inside optyx is acceptable only where the reference
    formula is undefined on the whole path (e.g. log(0.0) -> -inf)."""
    from vf.engine import smt
    try:
        vac = smt.satisfiable(list(pc) + list(dom)) == "unsat"
    except Exception:  # noqa: BLE001
        vac = False
    if vac:
        return proved("vacuous (formula undefined on this path): " + what)
    return harness_error(f"concretisation: {exc}", item=item)


TOUCH = False   # set by the 'touched' item variants: read-only queries are made on the tree before the operation under test


def reachable(e):
    """every object below e (post-order): expressions AND vector / matrix containers"""
    out, seen = [], set()
    stack = [(e, False)]
    while stack:
        o, done = stack.pop()
        if done:
            out.append(o)
            continue
        if id(o) in seen or isinstance(o, (int, float, str, bytes, np.ndarray)) or o is None:
            continue
        seen.add(id(o))
        stack.append((o, True))
        for attr in ("left", "right", "operand", "vector", "matrix", "expression", "base", "exponent"):
            c = getattr(o, attr, None)
            if c is not None and not callable(c):
                stack.append((c, False))
        ex = getattr(o, "_expressions", None)
        if ex is not None:
            for row in ex:
                for x in (row if isinstance(row, (list, tuple)) else [row]):
                    stack.append((x, False))
    return out


def touch(e):
    """Read-only public queries on every object of the tree (variable sets, repr, hash,
    degree, problem listing): none of them may change what a later operation returns."""
    objs = reachable(e)
    for o in objs:
        for q in (lambda: o.get_variables(), lambda: repr(o), lambda: hash(o), lambda: str(o)):
            try:
                q()
            except BaseException as ex:  # noqa: BLE001
                if not isinstance(ex, Exception):
                    raise
    try:
        from optyx import Problem
        from optyx.core.expressions import Expression
        if isinstance(e, Expression):
            p = Problem().minimize(e)
            p.variables
            p.n_variables
            repr(p)
    except Exception:  # noqa: BLE001
        pass
    return e


def touched_items(its, every, kinds):
    """item variants that run the same item with the tree touched first (every k-th item of the given kinds)"""
    sel = [it for it in its if it[0] in kinds]
    return [("touched", it) for it in sel[::every]]


def run_touched(check, inner):
    global TOUCH
    TOUCH = True
    try:
        rr = check(inner)
    finally:
        TOUCH = False
    for r in rr:
        r["what"] = "[after read-only queries on the tree] " + str(r.get("what", ""))
        if r.get("sig"):
            r["sig"] += "|touched"
        if isinstance(r.get("replay"), dict):
            r["replay"]["touched"] = True
    return rr


def replay_touched(replay, payload):
    global TOUCH
    if not payload.get("touched"):
        return None
    TOUCH = True
    try:
        return replay(dict(payload, touched=False))
    finally:
        TOUCH = False


def build_recipe(recipe, val, bounds=None, domains=None):
    b = Build(val, bounds=bounds, domains=domains)
    for d in declare(recipe):
        (b.V if d[0] == "vec" else b.M)(d)
    k = kind_of(recipe)
    e = getattr(b, k)(recipe)
    if TOUCH:
        touch(e)
    return b, e


def var_objects(b, names):
    """optyx Variable objects for names (declared elements or fresh scalars)"""
    return [b.S(("var", n)) for n in names]


def safe_items(check_one, payload, show=repr):
    import traceback
    from vf.engine.sym import SymbolicConcretisation
    out = []
    for r in payload:
        try:
            out += check_one(r)
        except SymbolicConcretisation as e:
            # raised while evaluating the REFERENCE formula: a constant sub-expression is outside the
            # domain of its function (acos(2.0) is NaN): the recipe denotes nothing, nothing to check
            if "nan" in str(e) or "inf" in str(e):
                out.append(dict(status="conformance", what=f"reference undefined (constant outside a function's domain): {show(r)[:80]}", points=0))
            else:
                out.append(harness_error(f"{type(e).__name__}: {e}", item=show(r)[:300], tb=traceback.format_exc()[-1500:]))
        except Exception as e:  # noqa: BLE001
            out.append(harness_error(f"{type(e).__name__}: {e}", item=show(r)[:300], tb=traceback.format_exc()[-1500:]))
    return out
