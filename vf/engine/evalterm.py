"""Numeric evaluation of a z3 term (UFs -> NumPy's functions).  Used only by the
engine conformance pass: symbolic execution instantiated at a point must equal
the concrete float execution of the real code."""
from __future__ import annotations

import math

import numpy as np
import z3

from .sym import POW, UF

_UF_IDS = {f.get_id(): n for n, f in UF.items()}


def eval_term(t, env):
    memo = {}

    def ev(e):
        i = e.get_id()
        if i in memo:
            return memo[i]
        r = _ev(e)
        memo[i] = r
        return r

    def _ev(e):
        if z3.is_rational_value(e):
            return e.numerator_as_long() / e.denominator_as_long()
        if z3.is_int_value(e):
            return float(e.as_long())
        if z3.is_true(e):
            return True
        if z3.is_false(e):
            return False
        if z3.is_const(e) and e.decl().kind() == z3.Z3_OP_UNINTERPRETED:
            return env[e.decl().name()]
        k = e.decl().kind()
        ch = e.children()
        if k == z3.Z3_OP_ADD:
            return sum(ev(c) for c in ch)
        if k == z3.Z3_OP_SUB:
            r = ev(ch[0])
            for c in ch[1:]:
                r = r - ev(c)
            return r
        if k == z3.Z3_OP_MUL:
            r = 1.0
            for c in ch:
                r = r * ev(c)
            return r
        if k == z3.Z3_OP_DIV:
            a, b = ev(ch[0]), ev(ch[1])
            with np.errstate(all="ignore"):
                return float(np.float64(a) / np.float64(b))
        if k == z3.Z3_OP_UMINUS:
            return -ev(ch[0])
        if k == z3.Z3_OP_ITE:
            return ev(ch[1]) if ev(ch[0]) else ev(ch[2])
        if k == z3.Z3_OP_LE:
            return ev(ch[0]) <= ev(ch[1])
        if k == z3.Z3_OP_LT:
            return ev(ch[0]) < ev(ch[1])
        if k == z3.Z3_OP_GE:
            return ev(ch[0]) >= ev(ch[1])
        if k == z3.Z3_OP_GT:
            return ev(ch[0]) > ev(ch[1])
        if k == z3.Z3_OP_EQ:
            return ev(ch[0]) == ev(ch[1])
        if k == z3.Z3_OP_DISTINCT:
            return ev(ch[0]) != ev(ch[1])
        if k == z3.Z3_OP_NOT:
            return not ev(ch[0])
        if k == z3.Z3_OP_AND:
            return all(ev(c) for c in ch)
        if k == z3.Z3_OP_OR:
            return any(ev(c) for c in ch)
        if k == z3.Z3_OP_TO_REAL:
            return float(ev(ch[0]))
        if k == z3.Z3_OP_POWER:
            return float(np.power(np.float64(ev(ch[0])), np.float64(ev(ch[1]))))
        d = e.decl().get_id()
        if d in _UF_IDS:
            with np.errstate(all="ignore"):
                return float(getattr(np, _UF_IDS[d])(np.float64(ev(ch[0]))))
        if d == POW.get_id():
            with np.errstate(all="ignore"):
                return float(np.power(np.float64(ev(ch[0])), np.float64(ev(ch[1]))))
        raise ValueError(f"cannot evaluate {e.decl()} / kind {k}")

    return ev(t)
