"""Recipes: small ASTs of public-API calls owned by the harness, with two
interpreters.

build(recipe, env)   -> calls the optyx API (the code under analysis)
ref(recipe, val)     -> computes the user's formula directly with NumPy on
                        object arrays of numbers (SReal / float / Dual)

Reference semantics is never read from optyx's own tree.

Scalar recipes S
  ('var', name) ('const', c) ('param', name) ('bin', op, S, S) ('un', op, S)
  ('vsum', V) ('dot', V, V) ('lincomb', coeffs, V[, side]) ('norm', V, ord)
  ('quad', V, Q[, how]) ('msum', M) ('fro', M) ('trace', M) ('velem', V, i)
  ('melem', M, i, j)
Vector recipes V
  ('vec', name, n) ('slice', V, start, stop, step) ('vbin', op, V, W) with W a
  V recipe or ('sc', c) or ('arr', [c..]) ('vrbin', op, ('sc', c), V)
  ('vneg', V) ('vpow', V, k) ('vun', op, V) ('matvec', A, V)
  ('mrow', M, i) ('mcol', M, j) ('mdiag', M) ('Mmatvec', M, V)
  ('vexpr', [S..])
Matrix recipes M
  ('mat', name, r, c[, symmetric]) ('mT', M) ('mslice', M, (a,b,s), (a,b,s))
  ('mbin', op, M, W) with W an M recipe, ('sc', c) or ('arr2', [[c..]..])
  ('mrbin', op, ('sc', c)|('arr2', ..), M) ('mneg', M)

Constants c are Python numbers or ('sym', name): a symbolic real constant
whose value comes from the valuation (so the solver quantifies over it).
"""
from __future__ import annotations

import numpy as np

from .dual import Dual, prim
from .sym import SReal, SBool, term
import z3

UNARY = {
    "neg": "negative", "abs": "abs", "sin": "sin", "cos": "cos", "tan": "tan",
    "exp": "exp", "log": "log", "log2": "log2", "log10": "log10", "sqrt": "sqrt",
    "tanh": "tanh", "sinh": "sinh", "cosh": "cosh", "asin": "arcsin",
    "acos": "arccos", "atan": "arctan", "asinh": "arcsinh", "acosh": "arccosh",
    "atanh": "arctanh",
}
ALL_UNARY = list(UNARY)
VEC_UNARY = ["sin", "cos", "tan", "exp", "log", "abs", "sqrt", "sinh", "cosh", "tanh"]


def cval(c, val):
    """value of a constant spec under a valuation"""
    if isinstance(c, tuple) and c and c[0] == "sym":
        return val[c[1]]
    if isinstance(c, tuple) and c and c[0] == "np":      # a NumPy scalar of the given type, e.g. ('np', 'int64', 2)
        return getattr(np, c[1])(c[2])
    if isinstance(c, tuple) and c and c[0] == "py":      # a Python number of the given type, e.g. ('py', 'int', 2)
        return {"int": int, "float": float}[c[1]](c[2])
    return c


def carr(cs, val):
    a = np.empty(len(cs), dtype=object)
    for i, c in enumerate(cs):
        a[i] = cval(c, val)
    if not any(isinstance(e, (SReal, Dual)) for e in a):
        return np.array([float(e) for e in a])
    return a


def carr2(cs, val):
    r, c = len(cs), len(cs[0])
    a = np.empty((r, c), dtype=object)
    for i in range(r):
        for j in range(c):
            a[i, j] = cval(cs[i][j], val)
    if not any(isinstance(e, (SReal, Dual)) for e in a.flat):
        return np.array([[float(e) for e in row] for row in a])
    return a


# ==========================================================================
# build: recipe -> optyx objects
# ==========================================================================
class Build:
    """One build context: variables/parameters are created once per name so
    that a recipe mentioning `x` twice uses the same object."""

    def __init__(self, val, bounds=None, domains=None):
        self.val = val  # valuation for constants / parameter values
        self.objs = {}
        self.params = {}
        self.bounds = bounds or {}
        self.domains = domains or {}

    def var(self, name):
        from optyx import Variable
        if name not in self.objs:
            lb, ub = self.bounds.get(name, (None, None))
            kw = {}
            if name in self.domains:
                kw["domain"] = self.domains[name]
            self.objs[name] = Variable(name, lb=lb, ub=ub, **kw)
        return self.objs[name]

    def S(self, r):
        import optyx
        from optyx import Constant, Parameter
        from optyx.core import functions as F
        k = r[0]
        if k == "var":
            name = r[1]
            if "[" in name:  # element of a declared vector / matrix
                base = name[: name.index("[")]
                idx = name[name.index("[") + 1: -1]
                o = self.objs[base]
                if "," in idx:
                    i, j = idx.split(",")
                    return o[int(i), int(j)]
                return o[int(idx)]
            return self.var(name)
        if k == "const":
            return Constant(cval(r[1], self.val))
        if k == "num":  # a raw python number operand (exercises _ensure_expr)
            return cval(r[1], self.val)
        if k == "pdup":
            # ANOTHER Parameter object with the same optyx name r[1] (own value under the valuation key 'name#k')
            key = f"{r[1]}#{r[2]}"
            if key not in self.params:
                self.params[key] = Parameter(r[1], self.val[key])
            return self.params[key]
        if k == "param":
            if r[1] not in self.params:
                vp = getattr(self, "vparam_names", None)
                if vp and r[1] in vp:
                    # the parameters are the elements of ONE VectorParameter container (updated together with .set(array))
                    from optyx import VectorParameter
                    vals = np.empty(len(vp), dtype=object)
                    for i, n in enumerate(vp):
                        vals[i] = self.val[n]
                    if not any(isinstance(e, (SReal, Dual)) for e in vals):
                        vals = np.array([float(e) for e in vals])
                    self.vparam = VectorParameter("pv", len(vp), values=vals)
                    for i, n in enumerate(vp):
                        self.params[n] = self.vparam[i]
                else:
                    self.params[r[1]] = Parameter(r[1], self.val[r[1]])
            return self.params[r[1]]
        if k == "bin":
            a, b = self.S(r[2]), self.S(r[3])
            op = r[1]
            if op == "+":
                return a + b
            if op == "-":
                return a - b
            if op == "*":
                return a * b
            if op == "/":
                return a / b
            if op == "**":
                return a ** b
            raise ValueError(op)
        if k == "un":
            a = self.S(r[2])
            if r[1] == "neg":
                return -a
            fn = {"abs": "abs_"}.get(r[1], r[1])
            return getattr(F, fn)(a)
        if k == "vsum":
            return self.V(r[1]).sum()
        if k == "dot":
            a, b = self.V(r[1]), self.V(r[2])
            how = r[3] if len(r) > 3 else "dot"
            return a.dot(b) if how == "dot" else a @ b
        if k == "lincomb":
            cs = carr(r[1], self.val)
            v = self.V(r[2])
            side = r[3] if len(r) > 3 else "left"
            if side == "left":
                return cs @ v
            if side == "list":
                return v @ list(cs)
            if side in ("uint8", "uint16", "int64", "int32", "float32", "bool"):
                # a coefficient array of another NumPy dtype (entries must be representable in it)
                return np.asarray(cs, dtype=float).astype(getattr(np, side if side != "bool" else "bool_")) @ v
            return v @ cs
        if k == "norm":
            return self.V(r[1]).norm(r[2]) if hasattr(self.V(r[1]), "norm") else optyx.core.vectors.norm(self.V(r[1]), r[2])
        if k == "quad":
            v = self.V(r[1])
            Q = carr2(r[2], self.val)
            how = r[3] if len(r) > 3 else "func"
            if how == "func":
                return optyx.quadratic_form(v, Q)
            if how in ("bool", "uint8", "int64", "int8"):
                # the matrix given with another NumPy dtype (a 0/1 adjacency mask, small integers)
                return optyx.quadratic_form(v, np.asarray(Q, dtype=float).astype(getattr(np, "bool_" if how == "bool" else how)))
            return v.dot(Q @ v)
        if k == "msum":
            return self.M(r[1]).sum()
        if k == "fro":
            return optyx.frobenius_norm(self.M(r[1]))
        if k == "trace":
            how = r[2] if len(r) > 2 else "method"
            m = self.M(r[1])
            return m.trace() if how == "method" else optyx.trace(m)
        if k == "velem":
            return self.V(r[1])[r[2]]
        if k == "melem":
            return self.M(r[1])[r[2], r[3]]
        if k == "chain":
            # ('chain', op, [terms], assoc): a sum / product accumulated term by term
            terms = [self.S(t) for t in r[2]]
            return _fold(r[1], terms, r[3])
        raise ValueError(f"unknown scalar recipe {r!r}")

    def W(self, r):
        """right operand of an elementwise op: vector recipe, scalar or array"""
        if r[0] == "sc":
            return cval(r[1], self.val)
        if r[0] == "arr":
            return carr(r[1], self.val)
        if r[0] == "lst":
            return list(carr(r[1], self.val))
        if r[0] == "elst":   # a Python list (or object array) whose elements are scalar EXPRESSIONS / Parameters / numbers
            items = [self.S(e) if _is_scalar_recipe(e) else cval(e, self.val) for e in r[1]]
            if len(r) > 2 and r[2] == "array":
                a = np.empty(len(items), dtype=object)
                for i, e in enumerate(items):
                    a[i] = e
                return a
            return items
        if r[0] == "arr2":
            return carr2(r[1], self.val)
        if r[0] == "elst2":  # nested list / 2-D object array whose elements are scalar expressions / Parameters / numbers
            rows = [[self.S(e) if _is_scalar_recipe(e) else cval(e, self.val) for e in row] for row in r[1]]
            if len(r) > 2 and r[2] == "array":
                a = np.empty((len(rows), len(rows[0])), dtype=object)
                for i, row in enumerate(rows):
                    for j, e in enumerate(row):
                        a[i, j] = e
                return a
            return rows
        if r[0] == "lst2":   # nested Python list / tuple operand
            rows = [list(row) for row in carr2(r[1], self.val)]
            return tuple(tuple(row) for row in rows) if len(r) > 2 and r[2] == "tuple" else rows
        if r[0] in ("mat", "mT", "mslice", "mbin", "mrbin", "mneg"):
            return self.M(r)
        return self.V(r)

    def V(self, r):
        import optyx
        from optyx import VectorVariable
        from optyx.core import functions as F
        from optyx.core.vectors import VectorExpression
        k = r[0]
        if k == "vec":
            key = r[1]
            if key not in self.objs:
                lb, ub = self.bounds.get(key, (None, None))
                kw = {}
                if key in self.domains:
                    kw["domain"] = self.domains[key]
                self.objs[key] = VectorVariable(key, r[2], lb=lb, ub=ub, **kw)
            return self.objs[key]
        if k == "slice":
            return self.V(r[1])[slice(r[2], r[3], r[4])]
        if k == "vbin":
            a, b = self.V(r[2]), self.W(r[3])
            return _binop(r[1], a, b)
        if k == "vrbin":
            a, b = self.W(r[2]), self.V(r[3])
            return _binop(r[1], a, b)
        if k == "vneg":
            return -self.V(r[1])
        if k == "vpow":
            return self.V(r[1]) ** cval(r[2], self.val)
        if k == "vun":
            fn = {"abs": "abs_"}.get(r[1], r[1])
            return getattr(F, fn)(self.V(r[2]))
        if k == "matvec":
            A = carr2(r[1], self.val)
            how = r[3] if len(r) > 3 else "op"
            return A @ self.V(r[2]) if how == "op" else optyx.matmul(A, self.V(r[2]))
        if k == "mrow":
            return self.M(r[1])[r[2], :]
        if k == "mcol":
            return self.M(r[1])[:, r[2]]
        if k == "mrowpart":   # A[i, a:b:s]
            return self.M(r[1])[r[2], slice(*r[3])]
        if k == "mcolpart":   # A[a:b:s, j]
            return self.M(r[1])[slice(*r[3]), r[2]]
        if k == "mdiag":
            how = r[2] if len(r) > 2 else "method"
            return self.M(r[1]).diagonal() if how == "method" else optyx.diag(self.M(r[1]))
        if k == "Mmatvec":
            return self.M(r[1]) @ self.V(r[2])
        if k == "vexpr":
            return VectorExpression([_as_expr(self.S(s)) for s in r[1]])
        raise ValueError(f"unknown vector recipe {r!r}")

    def M(self, r):
        from optyx import MatrixVariable
        k = r[0]
        if k == "mat":
            key = r[1]
            if key not in self.objs:
                lb, ub = self.bounds.get(key, (None, None))
                kw = {}
                if key in self.domains:
                    kw["domain"] = self.domains[key]
                self.objs[key] = MatrixVariable(key, r[2], r[3], lb=lb, ub=ub,
                                                symmetric=(len(r) > 4 and bool(r[4])), **kw)
            return self.objs[key]
        if k == "mT":
            return self.M(r[1]).T
        if k == "mslice":
            return self.M(r[1])[slice(*r[2]), slice(*r[3])]
        if k == "mbin":
            return _binop(r[1], self.M(r[2]), self.W(r[3]))
        if k == "mrbin":
            return _binop(r[1], self.W(r[2]), self.M(r[3]))
        if k == "mneg":
            return -self.M(r[1])
        raise ValueError(f"unknown matrix recipe {r!r}")


def _fold(op, terms, assoc, ref=None):
    """fold a term list with a binary operator; iterative for left / right
    association (so that 20000-term chains need no recursion in the harness)"""
    def ap(a, b):
        if op == "/" and ref is not None:
            ref._nonzero(b)
        return _binop(op, a, b)
    if assoc == "left":
        acc = terms[0]
        for t in terms[1:]:
            acc = ap(acc, t)
        return acc
    if assoc == "right":
        acc = terms[-1]
        for t in reversed(terms[:-1]):
            acc = ap(t, acc)
        return acc
    if assoc == "balanced":
        level = list(terms)
        while len(level) > 1:
            nxt = []
            for i in range(0, len(level) - 1, 2):
                nxt.append(ap(level[i], level[i + 1]))
            if len(level) % 2:
                nxt.append(level[-1])
            level = nxt
        return level[0]
    raise ValueError(assoc)


def _is_scalar_recipe(e):
    return isinstance(e, tuple) and bool(e) and isinstance(e[0], str) and e[0] not in ("sym", "np", "py")


def _as_expr(x):
    from optyx.core.expressions import Expression, Constant
    return x if isinstance(x, Expression) else Constant(x)


def _binop(op, a, b):
    if op == "+":
        return a + b
    if op == "-":
        return a - b
    if op == "*":
        return a * b
    if op == "/":
        return a / b
    if op == "**":
        return a ** b
    raise ValueError(op)


# ==========================================================================
# ref: recipe -> numbers, straight NumPy on object arrays
# ==========================================================================
class Ref:
    """Reference interpreter.  `val` maps every free name (variables
    'x', 'v[0]', 'A[0,1]', symbolic constants, parameter names) to a number.
    `dom` collects the regularity conditions under which the formula (and,
    with diff>0, its derivatives) is defined."""

    def __init__(self, val, diff=0):
        self.val = val
        self.diff = diff
        self.dom = []
        self.read = set()

    def _cond(self, c):
        if isinstance(c, SBool):
            self.dom.append(c)
        elif isinstance(c, (bool, np.bool_)):
            if not c:
                self.dom.append(SBool(z3.BoolVal(False)))

    def get(self, name):
        self.read.add(name)
        return self.val[name]

    # -- domain bookkeeping ----------------------------------------------------
    def _nonzero(self, x):
        self._cond(prim(x) != 0)

    def _positive(self, x):
        self._cond(prim(x) > 0)

    def S(self, r):
        k = r[0]
        if k == "var":
            return self.get(r[1])
        if k in ("const", "num"):
            return cval(r[1], self.val)
        if k == "param":
            return self.get(r[1])
        if k == "pdup":
            return self.get(f"{r[1]}#{r[2]}")
        if k == "bin":
            a, b = self.S(r[2]), self.S(r[3])
            op = r[1]
            if op == "+":
                return a + b
            if op == "-":
                return a - b
            if op == "*":
                return a * b
            if op == "/":
                self._nonzero(b)
                return a / b
            if op == "**":
                return self._pow(a, b)
            raise ValueError(op)
        if k == "un":
            return self._un(r[1], self.S(r[2]))
        if k == "vsum":
            return _sum(self.V(r[1]))
        if k == "dot":
            return _dot(self.V(r[1]), self.V(r[2]))
        if k == "lincomb":
            return _dot(carr(r[1], self.val), self.V(r[2]))
        if k == "norm":
            v = self.V(r[1])
            if r[2] == 2:
                s = _dot(v, v)
                if self.diff:
                    self._positive(s)
                return self._un("sqrt", s, norm=True)
            return _sum(np.array([self._un("abs", e) for e in v], dtype=object))
        if k == "quad":
            v = self.V(r[1])
            Q = carr2(r[2], self.val)
            return _dot(v, _matvec(Q, v))
        if k == "msum":
            return _sum(self.M(r[1]).reshape(-1))
        if k == "fro":
            m = self.M(r[1]).reshape(-1)
            s = _dot(m, m)
            if self.diff:
                self._positive(s)
            return self._un("sqrt", s, norm=True)
        if k == "trace":
            m = self.M(r[1])
            return _sum(np.array([m[i, i] for i in range(m.shape[0])], dtype=object))
        if k == "velem":
            if r[1][0] == "vec":   # read only the element that is used
                n = r[1][2]
                return self.get(f"{r[1][1]}[{r[2] % n}]")
            return self.V(r[1])[r[2]]
        if k == "melem":
            if r[1][0] == "mat" and not (len(r[1]) > 4 and r[1][4]):
                return self.get(f"{r[1][1]}[{r[2] % r[1][2]},{r[3] % r[1][3]}]")
            return self.M(r[1])[r[2], r[3]]
        if k == "chain":
            terms = [self.S(t) for t in r[2]]
            return _fold(r[1], terms, r[3], ref=self)
        raise ValueError(f"unknown scalar recipe {r!r}")

    def _pow(self, a, b):
        pb = prim(b)
        bc = pb.c if isinstance(pb, SReal) else pb
        integer = bc is not None and float(bc).is_integer()
        if integer:
            if float(bc) < 0:
                self._nonzero(a)
        else:
            # non-integer or symbolic exponent: base must be positive
            self._positive(a)
        if isinstance(b, Dual) and not isinstance(a, Dual):
            return Dual(a, 0.0) ** b
        return a ** b

    def _un(self, op, a, norm=False):
        if op == "neg":
            return -a
        if op == "abs":
            if self.diff:
                self._nonzero(a)
            return abs(a)
        if op in ("log", "log2", "log10"):
            self._positive(a)
        elif op == "sqrt" and not norm:
            if self.diff:
                self._positive(a)
            else:
                self._cond(prim(a) >= 0)
        elif op == "tan":
            self._nonzero(_apply("cos", prim(a)))
        elif op in ("asin", "acos", "atanh"):
            p = prim(a)
            self._cond((p > -1) & (p < 1) if isinstance(p, SReal) else bool(-1 < p < 1))
        elif op == "acosh":
            self._cond(prim(a) > 1)
        return _apply(UNARY[op], a)

    def W(self, r):
        if r[0] == "sc":
            return cval(r[1], self.val)
        if r[0] in ("arr", "lst"):
            return carr(r[1], self.val)
        if r[0] == "elst":
            a = np.empty(len(r[1]), dtype=object)
            for i, e in enumerate(r[1]):
                a[i] = self.S(e) if _is_scalar_recipe(e) else cval(e, self.val)
            return a
        if r[0] in ("arr2", "lst2"):
            return carr2(r[1], self.val)
        if r[0] == "elst2":
            a = np.empty((len(r[1]), len(r[1][0])), dtype=object)
            for i, row in enumerate(r[1]):
                for j, e in enumerate(row):
                    a[i, j] = self.S(e) if _is_scalar_recipe(e) else cval(e, self.val)
            return a
        if r[0] in ("mat", "mT", "mslice", "mbin", "mrbin", "mneg"):
            return self.M(r)
        return self.V(r)

    def V(self, r):
        k = r[0]
        if k == "vec":
            a = np.empty(r[2], dtype=object)
            for i in range(r[2]):
                a[i] = self.get(f"{r[1]}[{i}]")
            return a
        if k == "slice":
            return self.V(r[1])[slice(r[2], r[3], r[4])]
        if k == "vbin":
            return self._ew(r[1], self.V(r[2]), self.W(r[3]))
        if k == "vrbin":
            return self._ew(r[1], self.W(r[2]), self.V(r[3]))
        if k == "vneg":
            return -self.V(r[1])
        if k == "vpow":
            v = self.V(r[1])
            kk = cval(r[2], self.val)
            return np.array([self._pow(e, kk) for e in v], dtype=object)
        if k == "vun":
            return np.array([self._un(r[1], e) for e in self.V(r[2])], dtype=object)
        if k == "matvec":
            return _matvec(carr2(r[1], self.val), self.V(r[2]))
        if k == "mrow":
            return self.M(r[1])[r[2], :]
        if k == "mcol":
            return self.M(r[1])[:, r[2]]
        if k == "mrowpart":
            return self.M(r[1])[r[2], slice(*r[3])]
        if k == "mcolpart":
            return self.M(r[1])[slice(*r[3]), r[2]]
        if k == "mdiag":
            m = self.M(r[1])
            return np.array([m[i, i] for i in range(m.shape[0])], dtype=object)
        if k == "Mmatvec":
            return _matvec(self.M(r[1]), self.V(r[2]))
        if k == "vexpr":
            return np.array([self.S(s) for s in r[1]], dtype=object)
        raise ValueError(f"unknown vector recipe {r!r}")

    def _ew(self, op, a, b):
        """elementwise binary op with numpy broadcasting semantics"""
        a_arr = isinstance(a, np.ndarray)
        b_arr = isinstance(b, np.ndarray)
        shape = a.shape if a_arr else b.shape
        if a_arr and b_arr and a.shape != b.shape:
            raise ValueError("shape mismatch in reference")
        out = np.empty(shape, dtype=object)
        fo = out.reshape(-1)
        fa = a.reshape(-1) if a_arr else None
        fb = b.reshape(-1) if b_arr else None
        for i in range(fo.size):
            x = fa[i] if a_arr else a
            y = fb[i] if b_arr else b
            if op == "+":
                fo[i] = x + y
            elif op == "-":
                fo[i] = x - y
            elif op == "*":
                fo[i] = x * y
            elif op == "/":
                self._nonzero(y)
                fo[i] = x / y
            elif op == "**":
                fo[i] = self._pow(x, y)
            else:
                raise ValueError(op)
        return out

    def M(self, r):
        k = r[0]
        if k == "mat":
            rows, cols = r[2], r[3]
            sym = len(r) > 4 and bool(r[4])
            a = np.empty((rows, cols), dtype=object)
            for i in range(rows):
                for j in range(cols):
                    if sym and j < i:
                        a[i, j] = self.get(f"{r[1]}[{j},{i}]")
                    else:
                        a[i, j] = self.get(f"{r[1]}[{i},{j}]")
            return a
        if k == "mT":
            return self.M(r[1]).T
        if k == "mslice":
            return self.M(r[1])[slice(*r[2]), slice(*r[3])]
        if k == "mbin":
            return self._ew(r[1], self.M(r[2]), self.W(r[3]))
        if k == "mrbin":
            return self._ew(r[1], self.W(r[2]), self.M(r[3]))
        if k == "mneg":
            return -self.M(r[1])
        raise ValueError(f"unknown matrix recipe {r!r}")


def _apply(npname, a):
    if isinstance(a, (SReal, Dual)):
        if npname == "negative":
            return -a
        if npname == "abs":
            return abs(a)
        return getattr(a, npname)()
    return getattr(np, npname)(a)


def _sum(v):
    s = 0.0
    first = True
    for e in v:
        s = e if first else s + e
        first = False
    return s


def _dot(a, b):
    if len(a) != len(b):
        raise ValueError("shape mismatch in reference dot")
    s = None
    for x, y in zip(a, b):
        s = x * y if s is None else s + x * y
    return s


def _matvec(A, v):
    if A.shape[1] != len(v):
        raise ValueError("shape mismatch in reference matvec")
    out = np.empty(A.shape[0], dtype=object)
    for i in range(A.shape[0]):
        out[i] = _dot(A[i, :], v)
    return out


# ==========================================================================
# helpers over recipes
# ==========================================================================
def free_names(r, acc=None):
    """(variables, symbolic constants, parameters) mentioned by a recipe,
    derived syntactically from the recipe (NOT from optyx)."""
    if acc is None:
        acc = {"vars": [], "syms": [], "params": []}
    if "_seen" not in acc:
        acc["_seen"] = {k: set(acc[k]) for k in ("vars", "syms", "params")}
        acc["_decl"] = set()
    seen = acc["_seen"]
    decl = acc["_decl"]

    def add(k, n):
        if n not in seen[k]:
            seen[k].add(n)
            acc[k].append(n)

    def c(x):
        if isinstance(x, tuple) and x and x[0] == "sym":
            add("syms", x[1])

    def walk(r):
        if not isinstance(r, tuple) or not r:
            if isinstance(r, list):
                for e in r:
                    walk(e)
            return
        k = r[0]
        if k == "var":
            add("vars", r[1])
        elif k in ("const", "num", "sc"):
            c(r[1])
        elif k == "param":
            add("params", r[1])
        elif k == "pdup":
            add("params", f"{r[1]}#{r[2]}")
        elif k == "vec":
            if r in decl:
                return
            decl.add(r)
            for i in range(r[2]):
                add("vars", f"{r[1]}[{i}]")
        elif k == "mat":
            if r in decl:
                return
            decl.add(r)
            sym = len(r) > 4 and bool(r[4])
            for i in range(r[2]):
                for j in range(r[3]):
                    if sym and j < i:
                        continue
                    add("vars", f"{r[1]}[{i},{j}]")
        elif k == "sym":
            add("syms", r[1])
        elif k in ("arr", "lst"):
            for e in r[1]:
                c(e)
        elif k == "elst":
            for e in r[1]:
                if _is_scalar_recipe(e):
                    walk(e)
                else:
                    c(e)
        elif k == "elst2":
            for row in r[1]:
                for e in row:
                    if _is_scalar_recipe(e):
                        walk(e)
                    else:
                        c(e)
        elif k in ("arr2", "lst2"):
            for row in r[1]:
                for e in row:
                    c(e)
        elif k == "lincomb":
            for e in r[1]:
                c(e)
            walk(r[2])
        elif k == "quad":
            walk(r[1])
            for row in r[2]:
                for e in row:
                    c(e)
        elif k == "matvec":
            for row in r[1]:
                for e in row:
                    c(e)
            walk(r[2])
        elif k == "vpow":
            walk(r[1])
            c(r[2])
        elif k == "chain":
            for t in r[2]:
                walk(t)
        else:
            for e in r[1:]:
                if isinstance(e, (tuple, list)):
                    walk(e)

    walk(r)
    return acc


def used_vars(r):
    """variables the *value* of the recipe can depend on: all declared
    elements that are actually read by the reference interpreter."""
    names = free_names(r)
    val = {n: 1.0 for n in names["vars"] + names["syms"] + names["params"]}
    R = Ref(val)
    kind = kind_of(r)
    getattr(R, kind)(r)
    return [n for n in names["vars"] if n in R.read]


def kind_of(r):
    k = r[0]
    if k in ("vec", "slice", "vbin", "vrbin", "vneg", "vpow", "vun", "matvec", "mrow", "mcol", "mrowpart", "mcolpart", "mdiag", "Mmatvec", "vexpr"):
        return "V"
    if k in ("mat", "mT", "mslice", "mbin", "mrbin", "mneg"):
        return "M"
    return "S"


def declare(r):
    """('vec'|'mat', ...) declarations contained in a recipe, in first-use
    order, so that a Build context can create containers before elements are
    referenced by name."""
    out = []
    seen = set()

    def walk(x):
        if isinstance(x, tuple) and x:
            if x[0] in ("vec", "mat"):
                if x not in seen:
                    seen.add(x)
                    out.append(x)
                return
            for e in x[1:]:
                if isinstance(e, (tuple, list)):
                    walk(e)
        elif isinstance(x, list):
            for e in x:
                if isinstance(e, (tuple, list)):
                    walk(e)

    walk(r)
    return out


def show(r):
    return repr(r)
