"""Rational-function normal form for z3 real terms (encoding aid).

A term built from + - * / numerals over *atoms* (variables, applications of the
uninterpreted elementary functions, If-terms, anything else) is brought to the
form N/D with N, D polynomials with exact rational coefficients.  Two terms are
equal wherever all denominators are non-zero iff N1*D2 - N2*D1 is the zero
polynomial: a complete procedure for field identities over independent atoms.
It is used to clear denominators before a query goes to z3 (which is weak at
re-associated division), never to refute: if the polynomial is not identically
zero the caller falls back to the plain SMT query.
"""
from __future__ import annotations

from fractions import Fraction

import z3


class TooBig(Exception):
    pass


MAX_MONOMIALS = 4000


def _padd(a, b):
    out = dict(a)
    for m, c in b.items():
        v = out.get(m, 0) + c
        if v:
            out[m] = v
        else:
            out.pop(m, None)
    if len(out) > MAX_MONOMIALS:
        raise TooBig()
    return out


def _pneg(a):
    return {m: -c for m, c in a.items()}


def _mmul(m1, m2):
    if not m1:
        return m2
    if not m2:
        return m1
    d = dict(m1)
    for a, e in m2:
        d[a] = d.get(a, 0) + e
    return tuple(sorted(d.items()))


def _pmul(a, b):
    if len(a) * len(b) > 4 * MAX_MONOMIALS * 50:
        raise TooBig()
    out = {}
    for m1, c1 in a.items():
        for m2, c2 in b.items():
            m = _mmul(m1, m2)
            v = out.get(m, 0) + c1 * c2
            if v:
                out[m] = v
            else:
                out.pop(m, None)
    if len(out) > MAX_MONOMIALS:
        raise TooBig()
    return out


ONE = {(): Fraction(1)}
ZERO = {}


class Normaliser:
    def __init__(self):
        self.memo = {}
        self.atoms = {}      # atom index -> z3 term
        self.index = {}      # atom key -> index
        self.denoms = []     # polynomials that were divided by
        self.nonzero_terms = []  # z3 terms that must be non-zero for the rewriting of pow

    def atom(self, key, term):
        idx = self.index.get(key)
        if idx is None:
            idx = self.index[key] = len(self.index)
            self.atoms[idx] = term
        return ({((idx, 1),): Fraction(1)}, ONE)

    def norm(self, t):
        """-> (N, D) polynomials; iterative post-order to survive deep terms"""
        memo = self.memo
        root = t
        stack = [(t, False)]
        while stack:
            e, done = stack.pop()
            i = e.get_id()
            if i in memo:
                continue
            k = e.decl().kind() if z3.is_app(e) else None
            if z3.is_rational_value(e):
                memo[i] = ({(): Fraction(e.numerator_as_long(), e.denominator_as_long())} if e.numerator_as_long() else {}, ONE)
                continue
            if z3.is_int_value(e):
                memo[i] = ({(): Fraction(e.as_long())} if e.as_long() else {}, ONE)
                continue
            arith = k in (z3.Z3_OP_ADD, z3.Z3_OP_SUB, z3.Z3_OP_MUL, z3.Z3_OP_DIV, z3.Z3_OP_UMINUS, z3.Z3_OP_TO_REAL)
            uf = (k == z3.Z3_OP_UNINTERPRETED and e.num_args() > 0 and all(c.sort() == z3.RealSort() for c in e.children()))
            if not arith and not uf:
                # opaque atom (variable, If, ...): keyed by its own term id;
                # structurally equal z3 terms share one id (hash-consing)
                memo[i] = self.atom(i, e)
                continue
            ch = e.children()
            if uf and done:
                # application of an uninterpreted function: keyed by the function and the
                # NORMAL FORMS of its arguments, so sqrt(a+b) and sqrt(b+a) are one atom
                canon = lambda nd: (tuple(sorted(nd[0].items(), key=repr)), tuple(sorted(nd[1].items(), key=repr)))  # noqa: E731
                if e.decl().name() == "pow" and len(ch) == 2:
                    # pow(a, b0 + k) = pow(a, b0) * a^k for an integer offset k (a != 0 is a side condition)
                    (na, da), (nb, db) = memo[ch[0].get_id()], memo[ch[1].get_id()]
                    c0 = nb.get((), Fraction(0))
                    k = int(c0) if db == ONE and c0.denominator == 1 else (c0.numerator // c0.denominator if db == ONE else 0)
                    if k != 0 and abs(k) <= 6:
                        nb2 = dict(nb)
                        v = c0 - k
                        if v:
                            nb2[()] = v
                        else:
                            nb2.pop((), None)
                        key = ("pow", canon((na, da)), canon((nb2, db)))
                        an, ad = self.atom(key, e)
                        self.nonzero_terms.append(ch[0])
                        num, den = (na, da) if k > 0 else (da, na)
                        for _ in range(abs(k)):
                            an = _pmul(an, num)
                            ad = _pmul(ad, den)
                        memo[i] = (an, ad)
                        continue
                key = (e.decl().name(),) + tuple(canon(memo[c.get_id()]) for c in ch)
                memo[i] = self.atom(key, e)
                continue
            if not done:
                stack.append((e, True))
                for c in ch:
                    if c.get_id() not in memo:
                        stack.append((c, False))
                continue
            vals = [memo[c.get_id()] for c in ch]
            if k == z3.Z3_OP_TO_REAL:
                memo[i] = vals[0]
            elif k == z3.Z3_OP_UMINUS:
                memo[i] = (_pneg(vals[0][0]), vals[0][1])
            elif k == z3.Z3_OP_MUL:
                n, d = ONE, ONE
                for (a, b) in vals:
                    n = _pmul(n, a)
                    d = _pmul(d, b) if b is not ONE and b != ONE else d
                memo[i] = (n, d)
            elif k == z3.Z3_OP_DIV:
                (a, b), (c, d_) = vals
                self.denoms.append(c)
                memo[i] = (_pmul(a, d_), _pmul(b, c))
            else:  # ADD / SUB
                n, d = vals[0]
                for idx, (a, b) in enumerate(vals[1:]):
                    if k == z3.Z3_OP_SUB:
                        a = _pneg(a)
                    if b == d:
                        n = _padd(n, a)
                    else:
                        n = _padd(_pmul(n, b), _pmul(a, d))
                        d = _pmul(d, b)
                memo[i] = (n, d)
        return memo[root.get_id()]

    def to_z3(self, poly):
        """polynomial -> z3 term (sum of monomials)"""
        terms = []
        for m, c in sorted(poly.items(), key=lambda kv: repr(kv[0])):
            t = z3.RealVal(str(c))
            for a, e in m:
                at = self.atoms[a]
                for _ in range(e):
                    t = t * at
            terms.append(t)
        if not terms:
            return z3.RealVal(0)
        return z3.Sum(terms) if len(terms) > 1 else terms[0]


def identical(a, b):
    """True if a == b is a field identity over the atoms (holds wherever no
    denominator vanishes); False = not shown (NOT a refutation); also returns
    the normaliser (atoms / denominators) for the caller's side conditions."""
    nz = Normaliser()
    try:
        na, da = nz.norm(a)
        nb, db = nz.norm(b)
        lhs = _pmul(na, db)
        rhs = _pmul(nb, da)
        diff = _padd(lhs, _pneg(rhs))
    except TooBig:
        return False, nz
    return (not diff), nz


def split_equalities(claim):
    """conjunction of equalities between reals -> list of (lhs, rhs) or None"""
    out = []
    stack = [claim]
    while stack:
        e = stack.pop()
        if z3.is_and(e):
            stack.extend(e.children())
        elif z3.is_eq(e) and e.arg(0).sort() == z3.RealSort():
            out.append((e.arg(0), e.arg(1)))
        elif z3.is_true(e):
            continue
        else:
            return None
    return out
