"""Forward-mode dual numbers: the derivative oracle.

Textbook chain rule over a generic component type (SReal, float, or another
Dual for second derivatives).  Independent of optyx's rule structure and of
its simplifiers."""
from __future__ import annotations

import math

import numpy as np

from .sym import SReal, sign as _sign

LN2 = math.log(2.0)
LN10 = math.log(10.0)


def _f(name, x):
    """apply elementary function `name` (numpy ufunc name) to a component"""
    if isinstance(x, (SReal, Dual)):
        return getattr(x, name)()
    return getattr(np, name)(x)


def prim(x):
    """primal (innermost) value"""
    while isinstance(x, Dual):
        x = x.v
    return x


def sgn(x):
    if isinstance(x, Dual):
        return x.sign()
    if isinstance(x, SReal):
        return _sign(x)
    return float(np.sign(x))


class Dual:
    __slots__ = ("v", "d")
    __hash__ = None  # type: ignore[assignment]

    def __init__(self, v, d):
        self.v = v
        self.d = d

    @staticmethod
    def lift(o):
        if isinstance(o, Dual):
            return o
        if isinstance(o, np.ndarray):
            if o.ndim == 0:
                return Dual.lift(o.item())
            return NotImplemented
        return Dual(o, 0.0)

    def __add__(self, o):
        o = Dual.lift(o)
        if o is NotImplemented:
            return NotImplemented
        return Dual(self.v + o.v, self.d + o.d)

    __radd__ = __add__

    def __sub__(self, o):
        o = Dual.lift(o)
        if o is NotImplemented:
            return NotImplemented
        return Dual(self.v - o.v, self.d - o.d)

    def __rsub__(self, o):
        o = Dual.lift(o)
        if o is NotImplemented:
            return NotImplemented
        return Dual(o.v - self.v, o.d - self.d)

    def __mul__(self, o):
        o = Dual.lift(o)
        if o is NotImplemented:
            return NotImplemented
        return Dual(self.v * o.v, self.v * o.d + self.d * o.v)

    __rmul__ = __mul__

    def __truediv__(self, o):
        o = Dual.lift(o)
        if o is NotImplemented:
            return NotImplemented
        return Dual(self.v / o.v, (self.d * o.v - self.v * o.d) / (o.v * o.v))

    def __rtruediv__(self, o):
        o = Dual.lift(o)
        if o is NotImplemented:
            return NotImplemented
        return o.__truediv__(self)

    def __neg__(self):
        return Dual(-self.v, -self.d)

    def __pos__(self):
        return self

    def __abs__(self):
        # d|a| = (a/|a|) da  (== sign(a) da wherever the derivative exists)
        a = abs(self.v)
        return Dual(a, self.v / a * self.d)

    def sign(self):
        return Dual(sgn(self.v), 0.0)

    def __pow__(self, o):
        if isinstance(o, np.ndarray) and o.ndim:
            return NotImplemented
        if isinstance(o, Dual):
            # a^b * (b' ln a + b a'/a)
            p = self.v ** o.v
            return Dual(p, p * (o.d * _f("log", self.v) + o.v * self.d / self.v))
        # constant exponent: n a^(n-1) a'
        k = o
        kc = k.c if isinstance(k, SReal) else k
        if kc is not None and not isinstance(kc, SReal) and kc == 0:
            return Dual(self.v ** k, 0.0)
        return Dual(self.v ** k, k * self.v ** (k - 1) * self.d)

    def __rpow__(self, o):
        # const ** self
        p = o ** self.v
        return Dual(p, p * _f("log", o) * self.d)

    # comparisons act on the primal value
    def __lt__(self, o): return self.v < (o.v if isinstance(o, Dual) else o)
    def __le__(self, o): return self.v <= (o.v if isinstance(o, Dual) else o)
    def __gt__(self, o): return self.v > (o.v if isinstance(o, Dual) else o)
    def __ge__(self, o): return self.v >= (o.v if isinstance(o, Dual) else o)

    # numpy object-array dispatch
    def sin(self): return Dual(_f("sin", self.v), _f("cos", self.v) * self.d)
    def cos(self): return Dual(_f("cos", self.v), -_f("sin", self.v) * self.d)

    def tan(self):
        c = _f("cos", self.v)
        return Dual(_f("tan", self.v), self.d / (c * c))

    def exp(self):
        e = _f("exp", self.v)
        return Dual(e, e * self.d)

    def log(self): return Dual(_f("log", self.v), self.d / self.v)
    def log2(self): return Dual(_f("log2", self.v), self.d / (self.v * LN2))
    def log10(self): return Dual(_f("log10", self.v), self.d / (self.v * LN10))

    def sqrt(self):
        s = _f("sqrt", self.v)
        return Dual(s, self.d / (2.0 * s))

    def tanh(self):
        t = _f("tanh", self.v)
        return Dual(t, (1.0 - t * t) * self.d)

    def sinh(self): return Dual(_f("sinh", self.v), _f("cosh", self.v) * self.d)
    def cosh(self): return Dual(_f("cosh", self.v), _f("sinh", self.v) * self.d)
    def arcsin(self): return Dual(_f("arcsin", self.v), self.d / _f("sqrt", 1.0 - self.v * self.v))
    def arccos(self): return Dual(_f("arccos", self.v), -self.d / _f("sqrt", 1.0 - self.v * self.v))
    def arctan(self): return Dual(_f("arctan", self.v), self.d / (1.0 + self.v * self.v))
    def arcsinh(self): return Dual(_f("arcsinh", self.v), self.d / _f("sqrt", 1.0 + self.v * self.v))
    def arccosh(self): return Dual(_f("arccosh", self.v), self.d / _f("sqrt", self.v * self.v - 1.0))
    def arctanh(self): return Dual(_f("arctanh", self.v), self.d / (1.0 - self.v * self.v))

    def conjugate(self):
        return self

    def __repr__(self):
        return f"Dual({self.v!r}, {self.d!r})"


def tangent(x, order=1):
    """derivative component of a ref result (0 if the result is not Dual)"""
    if isinstance(x, Dual):
        return x.d
    if isinstance(x, np.ndarray) and x.ndim == 0:
        return tangent(x.item())
    return 0.0
