"""symx: a z3-backed numeric domain + path explorer for running the *real*
optyx code symbolically.

SReal   -- a real number that is a z3 term (or an exact rational constant)
SBool   -- a z3 Boolean; bool(SBool) is a branch point of the explorer
Explorer-- re-execution DFS over branch decisions (CrossHair's execution
           model, our domain)

Floats are exact rationals (stub S7 in DESIGN.md).  Transcendental functions
are uninterpreted functions (S6) constrained by per-term identity axioms
(see axioms.py).
"""
from __future__ import annotations

import math
import time
from fractions import Fraction

import numpy as np
import z3

# --------------------------------------------------------------------------
# uninterpreted functions for the elementary functions
# --------------------------------------------------------------------------
R = z3.RealSort()
UF_NAMES = [
    "sin", "cos", "tan", "exp", "log", "log2", "log10", "sqrt", "tanh",
    "sinh", "cosh", "arcsin", "arccos", "arctan", "arcsinh", "arccosh",
    "arctanh",
]
UF = {n: z3.Function(n, R, R) for n in UF_NAMES}
POW = z3.Function("pow", R, R, R)

# exact values at 0 / 1 that both numpy and maths agree on (keeps constant
# folding exact where it is exact in IEEE arithmetic too)
_EXACT = {
    ("sin", 0): 0, ("cos", 0): 1, ("tan", 0): 0, ("exp", 0): 1, ("log", 1): 0,
    ("log2", 1): 0, ("log10", 1): 0, ("sqrt", 0): 0, ("sqrt", 1): 1,
    ("tanh", 0): 0, ("sinh", 0): 0, ("cosh", 0): 1, ("arcsin", 0): 0,
    ("arctan", 0): 0, ("arcsinh", 0): 0, ("arccosh", 1): 0, ("arctanh", 0): 0,
    ("log2", 2): 1, ("log10", 10): 1, ("sqrt", 4): 2, ("sqrt", 9): 3,
}

MAX_INT_POW = 12


class SymbolicConcretisation(TypeError):
    """The code under analysis tried to turn a symbolic number into a
    machine float/int (a C boundary).  Harness error, never a verdict."""


class PathAbort(BaseException):
    """Current path is infeasible / over budget; abandon it."""


class ExplorationBudget(BaseException):
    pass


class ReplayDivergence(ExplorationBudget):
    """The re-execution of a recorded decision prefix met another kind of decision than recorded
    (the explored function is not deterministic in its decisions): the item is inconclusive."""


def _q(fr: Fraction):
    return z3.RealVal(str(fr.numerator) + "/" + str(fr.denominator)) if fr.denominator != 1 else z3.RealVal(fr.numerator)


def to_fraction(x):
    """exact rational for a python/numpy real number (None if not finite)"""
    if isinstance(x, Fraction):
        return x
    if isinstance(x, (bool, np.bool_)):
        return Fraction(int(x))
    if isinstance(x, (int, np.integer)):
        return Fraction(int(x))
    if isinstance(x, (float, np.floating)):
        x = float(x)
        if math.isfinite(x):
            return Fraction(x)
        return None
    raise TypeError(f"not a real number: {type(x)}")


class SBool:
    __slots__ = ("t",)

    def __init__(self, t):
        self.t = t

    def __bool__(self):
        ex = Explorer.current
        if ex is None:
            s = z3.simplify(self.t)
            if z3.is_true(s):
                return True
            if z3.is_false(s):
                return False
            raise SymbolicConcretisation(f"bool() of symbolic condition outside an exploration: {self.t}")
        return ex.branch(self.t)

    def __and__(self, o):
        if isinstance(o, SBool):
            return SBool(z3.And(self.t, o.t))
        return self if o else False

    __rand__ = __and__

    def __or__(self, o):
        if isinstance(o, SBool):
            return SBool(z3.Or(self.t, o.t))
        return True if o else self

    __ror__ = __or__

    def __invert__(self):
        return SBool(z3.Not(self.t))

    def __repr__(self):
        return f"SBool({self.t})"


def sbool_term(b):
    """z3 term of an SBool / python bool"""
    if isinstance(b, SBool):
        return b.t
    if isinstance(b, z3.BoolRef):
        return b
    return z3.BoolVal(bool(b))


def _ADD(a, b):
    return a + b


def _SUB(a, b):
    return a - b


_ADD._kind = "add"
_SUB._kind = "sub"


class SReal:
    """A symbolic real.  `c` is an exact Fraction when the value is a known
    constant (then no z3 term is needed until asked for)."""

    __slots__ = ("_t", "c")
    __hash__ = None  # type: ignore[assignment]

    def __init__(self, t=None, c=None):
        self._t = t
        self.c = c

    # -- construction -----------------------------------------------------
    @staticmethod
    def var(name: str) -> "SReal":
        return SReal(z3.Real(name))

    @staticmethod
    def const(x) -> "SReal":
        fr = to_fraction(x)
        if fr is None:
            raise SymbolicConcretisation(f"non-finite constant {x!r} has no SReal")
        return SReal(None, fr)

    @property
    def t(self):
        if self._t is None:
            self._t = _q(self.c)
        return self._t

    # -- coercion -----------------------------------------------------------
    @staticmethod
    def lift(o):
        """SReal for a scalar operand, NotImplemented for arrays/unknown,
        the float itself for +-inf/nan (handled by callers)."""
        if isinstance(o, SReal):
            return o
        if isinstance(o, (bool, int, float, np.integer, np.floating, np.bool_, Fraction)):
            fr = to_fraction(o)
            if fr is None:
                return float(o)  # inf / nan
            return SReal(None, fr)
        if isinstance(o, np.ndarray) and o.ndim == 0:
            return SReal.lift(o.item())
        return NotImplemented

    # -- arithmetic ---------------------------------------------------------
    def _bin(self, o, fop, zop, swap=False):
        o = SReal.lift(o)
        if o is NotImplemented:
            return NotImplemented
        if isinstance(o, float):  # inf / nan operand: a symbolic real is finite
            kind = getattr(fop, "_kind", None)
            if math.isinf(o) and kind in ("add", "sub"):
                if kind == "add":
                    return o
                return o if swap else -o      # inf - x = inf ; x - inf = -inf
            raise SymbolicConcretisation(f"arithmetic between SReal and {o}")
        a, b = (o, self) if swap else (self, o)
        if a.c is not None and b.c is not None:
            try:
                return SReal(None, fop(a.c, b.c))
            except ZeroDivisionError:
                pass
        return SReal(zop(a.t, b.t))

    def __add__(self, o):
        if isinstance(o, SReal) or not isinstance(o, np.ndarray):
            l = SReal.lift(o)
            if isinstance(l, SReal):
                if l.c is not None and l.c == 0:
                    return self
                if self.c is not None and self.c == 0:
                    return l
        return self._bin(o, _ADD, lambda a, b: a + b)

    def __radd__(self, o):
        l = SReal.lift(o)
        if isinstance(l, SReal) and l.c is not None and l.c == 0:
            return self
        return self._bin(o, _ADD, lambda a, b: a + b, swap=True)

    def __sub__(self, o):
        return self._bin(o, _SUB, lambda a, b: a - b)

    def __rsub__(self, o):
        return self._bin(o, _SUB, lambda a, b: a - b, swap=True)

    def __mul__(self, o):
        return self._mul(o, False)

    def __rmul__(self, o):
        return self._mul(o, True)

    def _mul(self, o, swap):
        l = SReal.lift(o)
        if isinstance(l, SReal):
            # exact identities that also hold in IEEE for finite values
            for a, b in ((self, l), (l, self)):
                if a.c is not None:
                    if a.c == 1:
                        return b
                    if a.c == 0:
                        return SReal(None, Fraction(0))
        return self._bin(o, lambda a, b: a * b, lambda a, b: a * b, swap)

    def __truediv__(self, o):
        l = SReal.lift(o)
        if isinstance(l, SReal) and l.c is not None and l.c == 1:
            return self
        return self._bin(o, lambda a, b: a / b, lambda a, b: a / b)

    def __rtruediv__(self, o):
        return self._bin(o, lambda a, b: a / b, lambda a, b: a / b, swap=True)

    def __neg__(self):
        if self.c is not None:
            return SReal(None, -self.c)
        return SReal(-self.t)

    def __pos__(self):
        return self

    def __abs__(self):
        if self.c is not None:
            return SReal(None, abs(self.c))
        return SReal(z3.If(self.t >= 0, self.t, -self.t))

    def __pow__(self, o):
        o = SReal.lift(o)
        if o is NotImplemented:
            return NotImplemented
        if isinstance(o, float):
            raise SymbolicConcretisation(f"SReal ** {o}")
        return spow(self, o)

    def __rpow__(self, o):
        o = SReal.lift(o)
        if o is NotImplemented:
            return NotImplemented
        if isinstance(o, float):
            raise SymbolicConcretisation(f"{o} ** SReal")
        return spow(o, self)

    # -- comparisons --------------------------------------------------------
    def _cmp(self, o, pyop, zop, inf_result):
        o = SReal.lift(o)
        if o is NotImplemented:
            return NotImplemented
        if isinstance(o, float):
            if math.isnan(o):
                return False
            return inf_result(o)
        if self.c is not None and o.c is not None:
            return pyop(self.c, o.c)
        return SBool(zop(self.t, o.t))

    def __lt__(self, o):
        return self._cmp(o, lambda a, b: a < b, lambda a, b: a < b, lambda inf: inf > 0)

    def __le__(self, o):
        return self._cmp(o, lambda a, b: a <= b, lambda a, b: a <= b, lambda inf: inf > 0)

    def __gt__(self, o):
        return self._cmp(o, lambda a, b: a > b, lambda a, b: a > b, lambda inf: inf < 0)

    def __ge__(self, o):
        return self._cmp(o, lambda a, b: a >= b, lambda a, b: a >= b, lambda inf: inf < 0)

    def __eq__(self, o):  # type: ignore[override]
        r = self._cmp(o, lambda a, b: a == b, lambda a, b: a == b, lambda inf: False)
        return False if r is NotImplemented else r

    def __ne__(self, o):  # type: ignore[override]
        r = self._cmp(o, lambda a, b: a != b, lambda a, b: a != b, lambda inf: True)
        return True if r is NotImplemented else r

    def __bool__(self):
        return bool(self != 0)

    # -- conversions --------------------------------------------------------
    def __float__(self):
        if self.c is not None:
            return float(self.c)
        raise SymbolicConcretisation(f"float() of symbolic real {self.t}")

    def __int__(self):
        if self.c is not None and self.c.denominator == 1:
            return int(self.c)
        if self.c is not None:
            return int(self.c)
        raise SymbolicConcretisation(f"int() of symbolic real {self.t}")

    def __index__(self):
        raise SymbolicConcretisation("symbolic real used as an index")

    # -- rounding: exact z3 semantics (ToInt is floor) -----------------------
    def __floor__(self):
        import math as _m
        if self.c is not None:
            return SReal.const(_m.floor(self.c))
        return SReal(z3.ToReal(z3.ToInt(self.t)))

    def __ceil__(self):
        import math as _m
        if self.c is not None:
            return SReal.const(_m.ceil(self.c))
        return SReal(-z3.ToReal(z3.ToInt(-self.t)))

    def floor(self):   # numpy object-array dispatch
        return self.__floor__()

    def ceil(self):
        return self.__ceil__()

    def __format__(self, spec):
        if self.c is not None:
            return format(float(self.c), spec)
        return f"<{self.t}>"

    def __repr__(self):
        if self.c is not None:
            return f"SReal({self.c})"
        return f"SReal({self.t})"

    def is_integer(self):
        if self.c is not None:
            return self.c.denominator == 1
        raise SymbolicConcretisation("is_integer() of symbolic real")

    # -- numpy ufunc dispatch on object arrays: np.sin(o) -> o.sin() ---------
    def _uf(self, name):
        if self.c is not None:
            key = (name, self.c)
            for (n, v), res in _EXACT.items():
                if n == name and self.c == v:
                    return SReal(None, Fraction(res))
        return SReal(UF[name](self.t))

    def sin(self): return self._uf("sin")
    def cos(self): return self._uf("cos")
    def tan(self): return self._uf("tan")
    def exp(self): return self._uf("exp")
    def log(self): return self._uf("log")
    def log2(self): return self._uf("log2")
    def log10(self): return self._uf("log10")
    def sqrt(self): return self._uf("sqrt")
    def tanh(self): return self._uf("tanh")
    def sinh(self): return self._uf("sinh")
    def cosh(self): return self._uf("cosh")
    def arcsin(self): return self._uf("arcsin")
    def arccos(self): return self._uf("arccos")
    def arctan(self): return self._uf("arctan")
    def arcsinh(self): return self._uf("arcsinh")
    def arccosh(self): return self._uf("arccosh")
    def arctanh(self): return self._uf("arctanh")

    def conjugate(self):
        return self

    def item(self):
        return self


def spow(a: SReal, b: SReal) -> SReal:
    """a ** b in the symbolic domain: integer constant exponents are expanded
    into products, everything else is the uninterpreted pow(a, b)."""
    if b.c is not None:
        k = b.c
        if k.denominator == 1 and abs(k.numerator) <= MAX_INT_POW:
            n = abs(k.numerator)
            if n == 0:
                return SReal(None, Fraction(1))
            if a.c is not None:
                try:
                    return SReal(None, a.c ** int(k))
                except ZeroDivisionError:
                    pass
            t = a.t
            r = t
            for _ in range(n - 1):
                r = r * t
            if k.numerator < 0:
                r = 1 / r
            return SReal(r)
        if a.c is not None and a.c == 1:
            return SReal(None, Fraction(1))
    return SReal(POW(a.t, b.t))


def sign(x):
    if isinstance(x, SReal):
        if x.c is not None:
            return SReal(None, Fraction((x.c > 0) - (x.c < 0)))
        return SReal(z3.If(x.t > 0, z3.RealVal(1), z3.If(x.t < 0, z3.RealVal(-1), z3.RealVal(0))))
    return math.copysign(1.0, x) if x != 0 else 0.0


def is_sym(x) -> bool:
    return isinstance(x, (SReal, SBool)) or type(x).__name__ in ("XReal", "Dual")


def has_sym(obj) -> bool:
    """does a scalar / (nested) sequence / array contain symbolic numbers"""
    if is_sym(obj):
        return True
    if isinstance(obj, np.ndarray):
        if obj.dtype != object:
            return False
        return any(is_sym(e) for e in obj.flat)
    if isinstance(obj, (list, tuple)):
        return any(has_sym(e) for e in obj)
    return False


def term(x):
    """z3 Real term for SReal / python number"""
    if isinstance(x, SReal):
        return x.t
    if isinstance(x, np.ndarray) and x.ndim == 0:
        return term(x.item())
    fr = to_fraction(x)
    if fr is None:
        raise SymbolicConcretisation(f"non-finite value {x!r} in a term")
    return _q(fr)


# --------------------------------------------------------------------------
# symbolic "message" strings returned by solver stubs
# --------------------------------------------------------------------------
class SymStr(str):
    """A solver message whose content is unknown: every substring test is a
    free Boolean decided by the explorer (memoised per substring per path)."""

    def __new__(cls, tag="msg"):
        o = str.__new__(cls, f"<symbolic {tag}>")
        o.tag = tag
        o.memo = {}
        return o

    def lower(self):
        return self

    def __contains__(self, sub):
        if sub not in self.memo:
            ex = Explorer.current
            self.memo[sub] = ex.choose(f"{self.tag}~{sub!r}", [False, True]) if ex else False
        return self.memo[sub]


# --------------------------------------------------------------------------
# explorer
# --------------------------------------------------------------------------
class Stats:
    def __init__(self):
        self.reset()

    def reset(self):
        self.paths = 0
        self.branch_checks = 0
        self.branch_time = 0.0
        self.queries = {"unsat": 0, "sat": 0, "unknown": 0}
        self.query_time = 0.0
        self.aborted_paths = 0
        self.truncated = 0

    def merge(self, o: "Stats"):
        self.paths += o.paths
        self.branch_checks += o.branch_checks
        self.branch_time += o.branch_time
        for k in self.queries:
            self.queries[k] += o.queries[k]
        self.query_time += o.query_time
        self.aborted_paths += o.aborted_paths
        self.truncated += o.truncated

    def as_dict(self):
        return dict(paths=self.paths, branch_checks=self.branch_checks,
                    branch_time_s=round(self.branch_time, 3), queries=dict(self.queries),
                    query_time_s=round(self.query_time, 3), aborted_paths=self.aborted_paths,
                    truncated=self.truncated)


STATS = Stats()


class Explorer:
    """Depth-first enumeration of the feasible decision sequences of fn().

    fn is re-executed from scratch once per path.  A decision is either a
    Boolean branch on a symbolic condition (SBool.__bool__) or an explicit
    finite choice (choose()).  Feasibility of each new branch is checked
    incrementally; `unknown` counts as feasible (over-approximation: the
    path condition is part of every later query, so an infeasible path can
    only produce vacuous `unsat`s, never a false alarm)."""

    current: "Explorer | None" = None

    def __init__(self, max_paths=20000, branch_timeout_ms=1500, base=()):
        self.max_paths = max_paths
        self.branch_timeout_ms = branch_timeout_ms
        self.base = list(base)  # global assumptions (domains) known before the run
        self.solver = z3.Solver()
        self.solver.set("timeout", branch_timeout_ms)
        self.prefix: list = []
        self.decisions: list = []
        self.labels: list = []
        self.pc: list = []
        self.todo: list = []
        self.on_path_start = None

    # -- API used by the code under analysis --------------------------------
    def assume(self, cond):
        """add an assumption to the current path (e.g. domain of a stub reply)"""
        t = sbool_term(cond)
        self.pc.append(t)
        self.solver.add(t)

    def _feasible(self, t):
        t0 = time.perf_counter()
        self.solver.push()
        self.solver.add(t)
        r = self.solver.check()
        self.solver.pop()
        STATS.branch_checks += 1
        STATS.branch_time += time.perf_counter() - t0
        return r != z3.unsat

    def branch(self, t) -> bool:
        # literal conditions are never decisions (checked first so that a replay stays aligned)
        st = z3.simplify(t)
        if z3.is_true(st):
            return True
        if z3.is_false(st):
            return False
        pos = len(self.decisions)
        if pos < len(self.prefix):
            d = self.prefix[pos]
            if isinstance(d, tuple) and d and d[0] == "F":
                # a branch whose outcome was forced by the path condition when this prefix was recorded:
                # replayed as recorded (it is implied by the pc, nothing is added)
                self.decisions.append(d)
                return d[1]
            if not isinstance(d, bool):
                raise ReplayDivergence(f"replay diverged at decision {pos}: expected a branch outcome, prefix holds {d!r}")
        else:
            f_true = self._feasible(t)
            f_false = self._feasible(z3.Not(t))
            if f_true and f_false:
                self.todo.append(self.decisions + [False])
                d = True
            elif f_true or f_false:
                # forced: recorded as a marker so that replays of longer prefixes consume it in the same position
                self.decisions.append(("F", bool(f_true)))
                return bool(f_true)
            else:
                STATS.aborted_paths += 1
                raise PathAbort("infeasible path condition")
        self.decisions.append(d)
        self.labels.append(("b", str(t)[:80]))
        c = t if d else z3.Not(t)
        self.pc.append(c)
        self.solver.add(c)
        return d

    def choose(self, name, options):
        options = list(options)
        pos = len(self.decisions)
        if pos < len(self.prefix):
            i = self.prefix[pos]
            if isinstance(i, (bool, tuple)) or not isinstance(i, int) or i >= len(options):
                raise ReplayDivergence(f"replay diverged at decision {pos}: expected a choice index for {name}, prefix holds {i!r}")
        else:
            i = 0
            for j in range(len(options) - 1, 0, -1):
                self.todo.append(self.decisions + [j])
        self.decisions.append(i)
        self.labels.append(("c", name, i))
        return options[i]

    # -- driver ---------------------------------------------------------------
    def explore(self, fn):
        """yield (decisions, labels, pc, result) for each completed path"""
        self.todo = [[]]
        n = 0
        while self.todo:
            if n >= self.max_paths:
                STATS.truncated += len(self.todo)
                raise ExplorationBudget(f"more than {self.max_paths} paths")
            self.prefix = self.todo.pop()
            self.decisions = []
            self.labels = []
            self.pc = list(self.base)
            self.solver.reset()
            self.solver.set("timeout", self.branch_timeout_ms)
            for b in self.base:
                self.solver.add(b)
            prev = Explorer.current
            Explorer.current = self
            try:
                if self.on_path_start:
                    self.on_path_start()
                try:
                    res = fn()
                except PathAbort:
                    continue
            finally:
                Explorer.current = prev
            n += 1
            STATS.paths += 1
            yield list(self.decisions), list(self.labels), list(self.pc), res


def choose(name, options):
    ex = Explorer.current
    if ex is None:
        raise RuntimeError("choose() outside exploration")
    return ex.choose(name, options)


def assume(cond):
    ex = Explorer.current
    if ex is None:
        raise RuntimeError("assume() outside exploration")
    ex.assume(cond)
