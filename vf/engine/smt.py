"""Discharging validity queries: path condition and domain and axioms and not claim.

unsat   -> the claim holds for every value on that path
sat     -> a model (turned into a concrete replay by the caller)
unknown -> inconclusive (counted, never success)
"""
from __future__ import annotations

import math
import os
import subprocess
import tempfile
import time
from fractions import Fraction

import z3

from .sym import POW, STATS, UF, SBool, SReal, sbool_term, term

LN2 = Fraction(math.log(2.0))
LN10 = Fraction(math.log(10.0))

_UF_IDS = {f.get_id(): n for n, f in UF.items()}
_POW_ID = POW.get_id()


_APPS = {}


def abstract_ufs(terms):
    """Replace every elementary-function / pow application by a fresh real
    constant (no congruence, no identities).  This only ADDS models, so
    `unsat` of the abstraction implies `unsat` of the original query."""
    _APPS.clear()
    _collect(terms)
    if not _APPS:
        return None
    subs = [(app, z3.Real(f"uf!{i}")) for i, app in _APPS.items()]
    return [z3.substitute(t, *subs) for t in terms]


def _collect(terms):
    """all UF applications (name, arg) and pow applications (a, b) occurring
    in the given z3 terms"""
    seen = set()
    ufs = {}
    pows = {}
    stack = list(terms)
    while stack:
        e = stack.pop()
        i = e.get_id()
        if i in seen:
            continue
        seen.add(i)
        if z3.is_app(e):
            d = e.decl().get_id()
            if d in _UF_IDS:
                ufs[(_UF_IDS[d], e.arg(0).get_id())] = (_UF_IDS[d], e.arg(0))
                _APPS[i] = e
            elif d == _POW_ID:
                pows[i] = (e.arg(0), e.arg(1))
                _APPS[i] = e
            stack.extend(e.children())
    return list(ufs.values()), list(pows.values())


def axioms_for(terms):
    """Instantiate the identity axioms of stub S6 for every argument term that
    occurs.  They make algebraically different but correct forms provable;
    none of them is needed when the code's form equals the reference form."""
    ufs, pows = _collect(terms)
    ax = []
    byarg = {}
    for name, a in ufs:
        byarg.setdefault(a.get_id(), (a, set()))[1].add(name)
    f = UF
    for _, (a, names) in byarg.items():
        if "sin" in names or "cos" in names or "tan" in names:
            s, c = f["sin"](a), f["cos"](a)
            ax.append(s * s + c * c == 1)
            ax.append(z3.And(s >= -1, s <= 1, c >= -1, c <= 1))
            if "tan" in names:
                ax.append(z3.Implies(c != 0, f["tan"](a) * c == s))
        if "exp" in names:
            ax.append(f["exp"](a) > 0)
        if "sinh" in names or "cosh" in names or "tanh" in names:
            sh, ch = f["sinh"](a), f["cosh"](a)
            ax.append(ch * ch - sh * sh == 1)
            ax.append(ch >= 1)
            if "tanh" in names:
                th = f["tanh"](a)
                ax.append(th * ch == sh)
                ax.append(z3.And(th > -1, th < 1))
        if "sqrt" in names:
            q = f["sqrt"](a)
            ax.append(z3.Implies(a >= 0, z3.And(q >= 0, q * q == a)))
            ax.append(z3.Implies(a > 0, q > 0))
        if "log2" in names:
            ax.append(f["log2"](a) * z3.RealVal(str(LN2)) == f["log"](a))
        if "log10" in names:
            ax.append(f["log10"](a) * z3.RealVal(str(LN10)) == f["log"](a))
    # pow: values at small integer exponents + the recurrence between the
    # pow terms present (same base, exponents differing by one)
    for a, b in pows:
        p = POW(a, b)
        ax.append(z3.Implies(b == 0, p == 1))
        ax.append(z3.Implies(b == 1, p == a))
        ax.append(z3.Implies(b == 2, p == a * a))
        ax.append(z3.Implies(b == 3, p == a * a * a))
        ax.append(z3.Implies(z3.And(b == -1, a != 0), p * a == 1))
        ax.append(z3.Implies(z3.And(b == -2, a != 0), p * a * a == 1))
        ax.append(z3.Implies(z3.And(b * 2 == 1, a >= 0), z3.And(p >= 0, p * p == a)))
        ax.append(z3.Implies(a > 0, p > 0))
    for i, (a1, b1) in enumerate(pows):
        for a2, b2 in pows[i + 1:]:
            same = a1.get_id() == a2.get_id()
            base_eq = z3.BoolVal(True) if same else (a1 == a2)
            ax.append(z3.Implies(z3.And(base_eq, b1 == b2), POW(a1, b1) == POW(a2, b2)))
            ax.append(z3.Implies(z3.And(base_eq, b1 == b2 + 1, a1 != 0), POW(a1, b1) == POW(a2, b2) * a1))
            ax.append(z3.Implies(z3.And(base_eq, b2 == b1 + 1, a1 != 0), POW(a2, b2) == POW(a1, b1) * a1))
            ax.append(z3.Implies(z3.And(base_eq, b1 == b2 + 2, a1 != 0), POW(a1, b1) == POW(a2, b2) * a1 * a1))
            ax.append(z3.Implies(z3.And(base_eq, b2 == b1 + 2, a1 != 0), POW(a2, b2) == POW(a1, b1) * a1 * a1))
    # sqrt vs pow(., 1/2)
    sq = [a for n, a in ufs if n == "sqrt"]
    for a, b in pows:
        for s in sq:
            ax.append(z3.Implies(z3.And(a == s, b * 2 == 1, a >= 0), POW(a, b) == UF["sqrt"](s)))
    return ax


USE_RATNORM = True
RATNORM_CROSS_EVERY = 50          # quick tier; the thorough tier re-decides every 20th (framework sets it)
RATNORM_CROSS_TIMEOUT_MS = 1500
RATNORM = {"identities": 0, "discharged": 0, "denominator_queries": 0, "fallbacks": 0, "z3_agree": 0, "z3_unknown": 0, "z3_DISAGREE": 0}


def _denominators(terms):
    seen, out = set(), {}
    stack = list(terms)
    while stack:
        e = stack.pop()
        if e.get_id() in seen:
            continue
        seen.add(e.get_id())
        if z3.is_app(e):
            if e.decl().kind() == z3.Z3_OP_DIV:
                d = e.arg(1)
                if not z3.is_rational_value(d) and not z3.is_int_value(d):
                    out[d.get_id()] = d
                elif z3.is_rational_value(d) and d.numerator_as_long() == 0:
                    out[d.get_id()] = d
            stack.extend(e.children())
    return list(out.values())


def _ratnorm_pass(c, hyps, timeout_ms, t0):
    from . import ratnorm
    eqs = ratnorm.split_equalities(c)
    if not eqs:
        return None
    extra = []
    for a, b in eqs:
        if a.get_id() == b.get_id():
            continue
        ok, nz = ratnorm.identical(a, b)
        if not ok:
            return None
        extra += nz.nonzero_terms
    RATNORM["identities"] += 1
    dens = _denominators([t for ab in eqs for t in ab])
    have = {d.get_id() for d in dens}
    dens += [t for t in extra if t.get_id() not in have]
    if dens:
        s = z3.Solver()
        s.set("timeout", min(timeout_ms, 8000))
        cond = [d == 0 for d in dens]
        terms = hyps + cond
        ab = abstract_ufs(terms)
        if ab is not None:   # abstraction first: unsat there is unsat here
            sa = z3.Solver()
            sa.set("timeout", min(timeout_ms, 4000))
            for h in ab[:len(hyps)]:
                sa.add(h)
            sa.add(z3.Or(ab[len(hyps):]))
            RATNORM["denominator_queries"] += 1
            if sa.check() == z3.unsat:
                dt = time.perf_counter() - t0
                STATS.query_time += dt
                STATS.queries["unsat"] += 1
                RATNORM["discharged"] += 1
                return Verdict("unsat", None, dt, "ratnorm+z3")
        for h in hyps:
            s.add(h)
        for a_ in axioms_for(terms):
            s.add(a_)
        s.add(z3.Or(cond))
        RATNORM["denominator_queries"] += 1
        if s.check() != z3.unsat:
            RATNORM["fallbacks"] += 1
            return None
    dt = time.perf_counter() - t0
    STATS.query_time += dt
    STATS.queries["unsat"] += 1
    RATNORM["discharged"] += 1
    return Verdict("unsat", None, dt, "ratnorm+z3" if dens else "ratnorm")


class Verdict:
    __slots__ = ("status", "model", "time", "solver", "alt_model", "tiny")

    def __init__(self, status, model=None, t=0.0, solver="z3"):
        self.status = status
        self.model = model
        self.time = t
        self.solver = solver
        self.alt_model = None   # the solver's first model when `model` is the float-visible one
        self.tiny = False       # at the solver's first model both sides differ by <= 1e-9 (1 + |b|): rounding-level (S7)


CROSS = {"every": 0, "count": 0, "done": 0, "agree": 0, "disagree": 0, "cvc5_unknown": 0, "log": []}


def _cvc5_check(smt2: str, timeout_s: int):
    with tempfile.NamedTemporaryFile("w", suffix=".smt2", delete=False, dir=os.environ.get("VERIF_TMP", "/tmp")) as fh:
        fh.write("(set-logic ALL)\n" + smt2 + "\n(check-sat)\n")
        path = fh.name
    try:
        out = subprocess.run(["cvc5", f"--tlimit={timeout_s * 1000}", path], capture_output=True, text=True,
                             timeout=timeout_s + 5).stdout.strip().splitlines()
        res = out[0] if out else "unknown"
    except Exception:
        res = "unknown"
    finally:
        os.unlink(path)
    return res if res in ("sat", "unsat") else "unknown"


def valid(claim, pc=(), assumptions=(), timeout_ms=20000, want_model=True, weak_sat=False) -> Verdict:
    """Is `claim` implied by pc and assumptions (and axioms)?

    Two encodings are tried: (1) elementary-function applications abstracted
    to fresh reals -- a pure polynomial/rational query; `unsat` there is
    `unsat` of the real query; (2) the full query with uninterpreted functions
    and identity axioms.  With weak_sat=True a `sat` of (1) is returned (flagged
    weak) when (2) is not decided: the caller must replay it numerically."""
    c = sbool_term(claim)
    hyps = [sbool_term(a) for a in list(pc) + list(assumptions)]
    neg = z3.Not(c)
    t0 = time.perf_counter()
    abs_model = None
    # (0) equalities that are field identities over the atoms: clear denominators
    #     (ratnorm) and let z3 decide only that no denominator can vanish
    if USE_RATNORM:
        v0 = _ratnorm_pass(c, hyps, timeout_ms, t0)
        if v0 is not None:
            # every N-th normaliser verdict is re-decided by the plain SMT query
            RATNORM["n"] = RATNORM.get("n", 0) + 1
            if RATNORM_CROSS_EVERY and RATNORM["n"] % RATNORM_CROSS_EVERY == 0:
                s2 = z3.Solver()
                s2.set("timeout", RATNORM_CROSS_TIMEOUT_MS)
                for h in hyps:
                    s2.add(h)
                for a in axioms_for(hyps + [neg]):
                    s2.add(a)
                s2.add(neg)
                r2 = s2.check()
                key = "z3_agree" if r2 == z3.unsat else "z3_unknown" if r2 == z3.unknown else "z3_DISAGREE"
                RATNORM[key] = RATNORM.get(key, 0) + 1
                if r2 == z3.sat:
                    CROSS["disagree"] += 1
                    CROSS["log"].append("ratnorm said identity, z3 sat:\n" + s2.to_smt2()[:2000])
            return v0
    ab = abstract_ufs(hyps + [neg])
    if ab is not None:
        sa = z3.Solver()
        sa.set("timeout", min(timeout_ms, 8000))
        for h in ab:
            sa.add(h)
        ra = sa.check()
        if ra == z3.unsat:
            dt = time.perf_counter() - t0
            STATS.query_time += dt
            STATS.queries["unsat"] += 1
            return Verdict("unsat", None, dt, "z3/abstracted")
        if ra == z3.sat:
            abs_model = sa.model()
    ax = axioms_for(hyps + [neg])
    s = z3.Solver()
    s.set("timeout", timeout_ms)
    for h in hyps:
        s.add(h)
    for a in ax:
        s.add(a)
    s.add(neg)
    r = s.check()
    dt = time.perf_counter() - t0
    STATS.query_time += dt
    if r == z3.unsat:
        STATS.queries["unsat"] += 1
        v = Verdict("unsat", None, dt)
    elif r == z3.sat:
        STATS.queries["sat"] += 1
        m = s.model() if want_model else None
        vis = _visible_model(s, c) if want_model else None
        if vis is not None and vis[0] == "unsat":
            # exact equality fails, equality within 1e-7 relative holds for ALL points: rounding-level (S7)
            STATS.queries["sat"] -= 1
            STATS.queries["unsat"] += 1
            ROUNDING["level"] += 1
            return Verdict("unsat", None, time.perf_counter() - t0, "z3/rounding-level")
        m0 = m
        if vis is not None:
            m = vis[1]
        v = Verdict("sat", m, dt)
        if want_model and m0 is not None:
            v.alt_model = m0 if m is not m0 else None
            v.tiny = _tiny_difference(m0, c)
    else:
        # second opinion before giving up
        res = _cvc5_check(s.to_smt2().replace("(check-sat)", ""), max(5, timeout_ms // 1000))
        if res == "unsat":
            STATS.queries["unsat"] += 1
            v = Verdict("unsat", None, dt, "cvc5")
        elif weak_sat and abs_model is not None:
            STATS.queries["sat"] += 1
            v = Verdict("sat", abs_model, dt, "z3/abstracted-weak")
        else:
            STATS.queries["unknown"] += 1
            v = Verdict("unknown", None, dt)
        return v
    # periodic cross-check of decided queries against the cvc5 binary
    if CROSS["every"]:
        CROSS["count"] += 1
        if CROSS["count"] % CROSS["every"] == 0:
            res = _cvc5_check(s.to_smt2().replace("(check-sat)", ""), 30)
            CROSS["done"] += 1
            if res == "unknown":
                CROSS["cvc5_unknown"] += 1
            elif res == v.status:
                CROSS["agree"] += 1
            else:
                CROSS["disagree"] += 1
                CROSS["log"].append(s.to_smt2()[:2000])
    return v


ROUNDING = {"level": 0}


def _visible_model(s, claim):
    """For a claim that is a conjunction of equalities a_i == b_i whose exact form is refuted: is there a
    counterexample that survives float tolerances, |a_i - b_i| > 1e-7 (1 + |b_i|) for some i?
      ("sat", model)   yes: that model is reported (a replay can see it)
      ("unsat", None)  no: the two sides differ by rounding-level amounts only (the code folded constants in
                       floating point, e.g. Constant(1/3.0)); rounding is outside the model (S7)
      None             not decided / not a conjunction of equalities: the plain model is kept"""
    try:
        from . import ratnorm
        pairs = ratnorm.split_equalities(claim)
        if not pairs:
            return None
        absd = lambda t: z3.If(t >= 0, t, -t)  # noqa: E731
        s.push()
        s.set("timeout", 3000)
        s.add(z3.Or([absd(a - b) > z3.RealVal("1/10000000") * (1 + absd(b)) for a, b in pairs]))
        r = s.check()
        m = s.model() if r == z3.sat else None
        s.pop()
        if r == z3.sat:
            return ("sat", m)
        if r == z3.unsat:
            return ("unsat", None)
        return None
    except Exception:  # noqa: BLE001
        return None


def _tiny_difference(model, claim):
    """exact difference of both sides of every equality at the model point <= 1e-9 (1 + |b|)?"""
    try:
        from . import ratnorm
        pairs = ratnorm.split_equalities(claim)
        if not pairs:
            return False
        for a, b in pairs:
            va = model.eval(a, model_completion=True)
            vb = model.eval(b, model_completion=True)
            fa = Fraction(va.numerator_as_long(), va.denominator_as_long())
            fb = Fraction(vb.numerator_as_long(), vb.denominator_as_long())
            if abs(fa - fb) > Fraction(1, 10 ** 9) * (1 + abs(fb)):
                return False
        return True
    except Exception:  # noqa: BLE001
        return False


def model_values(model, names):
    """Fractions for the named Real constants in a z3 model (0 if absent)."""
    out = {}
    for n in names:
        v = model.eval(z3.Real(n), model_completion=True)
        try:
            out[n] = Fraction(v.numerator_as_long(), v.denominator_as_long())
        except Exception:
            # algebraic number: take a rational approximation
            try:
                a = v.approx(20)
                out[n] = Fraction(a.numerator_as_long(), a.denominator_as_long())
            except Exception:
                out[n] = Fraction(0)
    return out


def satisfiable(conds, timeout_ms=10000) -> str:
    s = z3.Solver()
    s.set("timeout", timeout_ms)
    cs = [sbool_term(c) for c in conds]
    for c in cs:
        s.add(c)
    for a in axioms_for(cs):
        s.add(a)
    t0 = time.perf_counter()
    r = s.check()
    STATS.query_time += time.perf_counter() - t0
    res = "sat" if r == z3.sat else "unsat" if r == z3.unsat else "unknown"
    STATS.queries[res] += 1
    return res


def eq(a, b):
    """SBool/bool: a == b over reals (scalars)"""
    return SBool(term(a) == term(b))


def all_eq(xs, ys):
    xs = list(xs)
    ys = list(ys)
    if len(xs) != len(ys):
        return SBool(z3.BoolVal(False))
    if not xs:
        return SBool(z3.BoolVal(True))
    return SBool(z3.And([term(a) == term(b) for a, b in zip(xs, ys)]))
