"""Environment stubs S1-S3 (DESIGN.md 1.2), all applied from outside /repo:

S1  `float` as seen by optyx modules: identity on symbolic numbers
S2  numpy allocation with a float dtype -> object arrays when symbolic
S3  np.isfinite / np.nan_to_num / np.sign on symbolic arrays

Installed once per checker process (the concrete replays run in a fresh,
unpatched process)."""
from __future__ import annotations

import builtins
import math
import sys

import numpy as np

from .sym import SReal, has_sym, is_sym, sign as _ssign

_ORIG = {}
_INSTALLED = False

_bfloat = builtins.float


def _symbolic_scalar(v):
    return is_sym(v)


class _FloatMeta(type):
    def __instancecheck__(cls, o):
        return isinstance(o, _bfloat) or _symbolic_scalar(o)

    def __subclasscheck__(cls, sub):
        return issubclass(sub, _bfloat)

    def __eq__(cls, other):
        return other is cls or other is _bfloat

    def __hash__(cls):
        return hash(_bfloat)


class FloatShim(metaclass=_FloatMeta):
    """Shadow of builtin `float` inside optyx modules (S1)."""

    def __new__(cls, v=0.0):
        if _symbolic_scalar(v):
            return v
        if isinstance(v, np.ndarray) and v.dtype == object and v.size == 1:
            e = v.reshape(-1)[0]
            if _symbolic_scalar(e):
                return e
            return _bfloat(e)
        return _bfloat(v)


def _is_float_dtype(dt):
    if dt is None:
        return True
    if dt is FloatShim or dt is _bfloat:
        return True
    try:
        return np.issubdtype(np.dtype(dt), np.floating)
    except TypeError:
        return False


def _obj_filled(shape, value):
    a = _ORIG["empty"](shape, dtype=object)
    a.fill(value)
    return a


def _zeros(shape, dtype=None, *a, **k):
    if _is_float_dtype(dtype):
        return _obj_filled(shape, 0.0)
    return _ORIG["zeros"](shape, dtype, *a, **k)


def _ones(shape, dtype=None, *a, **k):
    if _is_float_dtype(dtype):
        return _obj_filled(shape, 1.0)
    return _ORIG["ones"](shape, dtype, *a, **k)


def _empty(shape, dtype=None, *a, **k):
    if _is_float_dtype(dtype):
        return _obj_filled(shape, 0.0)
    return _ORIG["empty"](shape, dtype, *a, **k)


def _full(shape, fill_value, dtype=None, *a, **k):
    if _is_float_dtype(dtype) and (is_sym(fill_value) or isinstance(fill_value, (int, _bfloat))):
        return _obj_filled(shape, fill_value if is_sym(fill_value) else _bfloat(fill_value))
    return _ORIG["full"](shape, fill_value, dtype, *a, **k)


def _array(obj, dtype=None, *a, **k):
    if dtype is FloatShim:
        dtype = _bfloat
    if dtype is not None and _is_float_dtype(dtype) and has_sym(obj):
        return _ORIG["array"](obj, dtype=object)
    if dtype is None and isinstance(obj, (list, tuple)) and has_sym(obj):
        return _ORIG["array"](obj, dtype=object)
    return _ORIG["array"](obj, dtype, *a, **k)


def _asarray(obj, dtype=None, *a, **k):
    if dtype is FloatShim:
        dtype = _bfloat
    if is_sym(obj):
        r = _ORIG["empty"]((), dtype=object)
        r[()] = obj
        return r
    if dtype is not None and _is_float_dtype(dtype) and has_sym(obj):
        return _ORIG["asarray"](obj, dtype=object)
    if dtype is None and isinstance(obj, (list, tuple)) and has_sym(obj):
        return _ORIG["asarray"](obj, dtype=object)
    return _ORIG["asarray"](obj, dtype, *a, **k)


def _fromiter(it, dtype, count=-1, **k):
    lst = list(it)
    if has_sym(lst) or any(isinstance(e, np.ndarray) and e.dtype == object for e in lst):
        return _ORIG["array"]([e.item() if isinstance(e, np.ndarray) else e for e in lst], dtype=object)
    if dtype is FloatShim:
        dtype = _bfloat
    return _ORIG["fromiter"](lst, dtype, count, **k)


def _elementwise(fn, x):
    if isinstance(x, np.ndarray):
        out = _ORIG["empty"](x.shape, dtype=object)
        flat = out.reshape(-1)
        for i, e in enumerate(x.reshape(-1)):
            flat[i] = fn(e)
        return out
    return fn(x)


def _isfinite(x, *a, **k):
    if is_sym(x) or (isinstance(x, np.ndarray) and x.dtype == object):
        def f(e):
            if type(e).__name__ == "XReal":
                return e.isfinite()
            if is_sym(e):
                return True
            return math.isfinite(e)
        r = _elementwise(f, x)
        return r
    return _ORIG["isfinite"](x, *a, **k)


def _nan_to_num(x, copy=True, nan=0.0, posinf=None, neginf=None):
    if is_sym(x) or (isinstance(x, np.ndarray) and x.dtype == object):
        def f(e):
            if type(e).__name__ == "XReal":
                return e.nan_to_num(nan, posinf, neginf)
            if is_sym(e):
                return e
            if math.isnan(e):
                return nan
            if math.isinf(e):
                return posinf if e > 0 else neginf
            return e
        return _elementwise(f, x)
    return _ORIG["nan_to_num"](x, copy=copy, nan=nan, posinf=posinf, neginf=neginf)


def _sign(x, *a, **k):
    if is_sym(x) or (isinstance(x, np.ndarray) and x.dtype == object):
        def f(e):
            if type(e).__name__ in ("XReal", "Dual"):
                return e.sign()
            return _ssign(e)
        return _elementwise(f, x)
    return _ORIG["sign"](x, *a, **k)


PATCHES = {
    "zeros": _zeros, "ones": _ones, "empty": _empty, "full": _full, "array": _array,
    "asarray": _asarray, "fromiter": _fromiter, "isfinite": _isfinite,
    "nan_to_num": _nan_to_num, "sign": _sign,
}


def install():
    """Patch numpy and every loaded optyx module (idempotent)."""
    global _INSTALLED
    import optyx  # noqa: F401  (ensure modules are loaded)
    import optyx.solvers.lp_solver  # noqa: F401
    import optyx.solvers.scipy_solver  # noqa: F401
    import optyx.analysis  # noqa: F401
    import optyx.core.verification  # noqa: F401
    if not _INSTALLED:
        for name, fn in PATCHES.items():
            _ORIG[name] = getattr(np, name)
            setattr(np, name, fn)
        _INSTALLED = True
    for name, mod in list(sys.modules.items()):
        if name == "optyx" or name.startswith("optyx."):
            mod.__dict__["float"] = FloatShim


def uninstall():
    global _INSTALLED
    if _INSTALLED:
        for name in PATCHES:
            setattr(np, name, _ORIG[name])
        _INSTALLED = False
    for name, mod in list(sys.modules.items()):
        if name == "optyx" or name.startswith("optyx."):
            mod.__dict__.pop("float", None)


def clear_optyx_caches():
    """optyx's process-wide LRU caches are cleared at every path start so a
    decision taken on one path cannot leak into another (C14 manages them
    explicitly).  Discovered, not hard-coded."""
    n = 0
    for name, mod in list(sys.modules.items()):
        if name == "optyx" or name.startswith("optyx."):
            for v in list(mod.__dict__.values()):
                if hasattr(v, "cache_clear") and hasattr(v, "cache_info"):
                    v.cache_clear()
                    n += 1
    return n
