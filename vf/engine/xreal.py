"""XReal: extended reals for C19 -- a pair (kind, value) with IEEE-754 / NumPy
special-value rules encoded as z3 If-terms.

kind: 0 finite, 1 +inf, 2 -inf, 3 NaN   (Python int when known, else z3 Int term)
val : z3 Real term, meaningful when kind == 0

Outside the model (S7): rounding, overflow to +-inf, signed zeros (0 is +0),
denormals.  Elementary functions of finite arguments are the uninterpreted
functions of sym.py (finite values)."""
from __future__ import annotations

import math
from fractions import Fraction

import numpy as np
import z3

from .sym import POW, UF, SBool, to_fraction

FIN, PINF, NINF, NAN = 0, 1, 2, 3
_K = {k: z3.IntVal(k) for k in (0, 1, 2, 3)}


def _rv(x):
    fr = to_fraction(x)
    return z3.RealVal(str(fr))


def _is_py(k):
    return isinstance(k, int)


def kt(k):
    """kind as z3 term"""
    return _K[k] if _is_py(k) else k


def keq(k, c):
    """kind == c  -> python bool or z3 Bool"""
    if _is_py(k):
        return k == c
    return k == c


def ite(c, a, b):
    """If with constant folding; a, b python ints (kinds) or z3 terms"""
    if isinstance(c, bool):
        return a if c else b
    if z3.is_true(c):
        return a
    if z3.is_false(c):
        return b
    if _is_py(a) and _is_py(b) and a == b:
        return a
    return z3.If(c, kt(a) if _is_py(a) else a, kt(b) if _is_py(b) else b)


def iter_(c, a, b):
    """If over Real terms with folding"""
    if isinstance(c, bool):
        return a if c else b
    if z3.is_true(c):
        return a
    if z3.is_false(c):
        return b
    return z3.If(c, a, b)


def AND(*cs):
    cs = [c for c in cs if not (isinstance(c, bool) and c)]
    if any(isinstance(c, bool) and not c for c in cs):
        return False
    if not cs:
        return True
    return z3.And(cs) if len(cs) > 1 else cs[0]


def OR(*cs):
    cs = [c for c in cs if not (isinstance(c, bool) and not c)]
    if any(isinstance(c, bool) and c for c in cs):
        return True
    if not cs:
        return False
    return z3.Or(cs) if len(cs) > 1 else cs[0]


def NOT(c):
    if isinstance(c, bool):
        return not c
    return z3.Not(c)


ZERO = z3.RealVal(0)
ONE = z3.RealVal(1)


class XReal:
    __slots__ = ("k", "v")
    __hash__ = None  # type: ignore[assignment]

    def __init__(self, k, v):
        self.k = k
        self.v = v

    # ---- construction -----------------------------------------------------
    @staticmethod
    def var(name):
        """a FINITE symbolic real"""
        return XReal(FIN, z3.Real(name))

    @staticmethod
    def lift(o):
        if isinstance(o, XReal):
            return o
        if isinstance(o, (bool, int, float, np.integer, np.floating, Fraction)):
            if isinstance(o, (float, np.floating)) and not math.isfinite(float(o)):
                f = float(o)
                return XReal(NAN if math.isnan(f) else PINF if f > 0 else NINF, ZERO)
            return XReal(FIN, _rv(o))
        if isinstance(o, np.ndarray) and o.ndim == 0:
            return XReal.lift(o.item())
        return NotImplemented

    # ---- predicates ---------------------------------------------------------
    def fin(self):
        return keq(self.k, FIN)

    def nan(self):
        return keq(self.k, NAN)

    def pinf(self):
        return keq(self.k, PINF)

    def ninf(self):
        return keq(self.k, NINF)

    def isfinite(self):
        f = self.fin()
        return f if isinstance(f, bool) else SBool(f)

    def nan_to_num(self, nan=0.0, posinf=None, neginf=None):
        big = 1.7976931348623157e308
        pv = _rv(posinf if posinf is not None else big)
        nv = _rv(neginf if neginf is not None else -big)
        v = iter_(self.fin(), self.v, iter_(self.nan(), _rv(nan), iter_(self.pinf(), pv, nv)))
        return XReal(FIN, v)

    # ---- arithmetic -----------------------------------------------------------
    def __add__(self, o):
        o = XReal.lift(o)
        if o is NotImplemented:
            return NotImplemented
        a, b = self, o
        anynan = OR(a.nan(), b.nan(), AND(a.pinf(), b.ninf()), AND(a.ninf(), b.pinf()))
        k = ite(anynan, NAN, ite(OR(a.pinf(), b.pinf()), PINF, ite(OR(a.ninf(), b.ninf()), NINF, FIN)))
        return XReal(k, a.v + b.v)

    __radd__ = __add__

    def __neg__(self):
        k = ite(self.pinf(), NINF, ite(self.ninf(), PINF, self.k))
        return XReal(k, -self.v)

    def __pos__(self):
        return self

    def __sub__(self, o):
        o = XReal.lift(o)
        if o is NotImplemented:
            return NotImplemented
        return self + (-o)

    def __rsub__(self, o):
        o = XReal.lift(o)
        if o is NotImplemented:
            return NotImplemented
        return o + (-self)

    def _sign_pos(self):
        """is the (extended) value > 0 / < 0 / == 0"""
        pos = OR(self.pinf(), AND(self.fin(), self.v > 0))
        neg = OR(self.ninf(), AND(self.fin(), self.v < 0))
        zero = AND(self.fin(), self.v == 0)
        return pos, neg, zero

    def __mul__(self, o):
        o = XReal.lift(o)
        if o is NotImplemented:
            return NotImplemented
        a, b = self, o
        ap, an, az = a._sign_pos()
        bp, bn, bz = b._sign_pos()
        ainf = OR(a.pinf(), a.ninf())
        binf = OR(b.pinf(), b.ninf())
        isnan = OR(a.nan(), b.nan(), AND(ainf, bz), AND(binf, az))
        isinf = OR(ainf, binf)
        possign = OR(AND(ap, bp), AND(an, bn))
        k = ite(isnan, NAN, ite(isinf, ite(possign, PINF, NINF), FIN))
        return XReal(k, a.v * b.v)

    __rmul__ = __mul__

    def __truediv__(self, o):
        o = XReal.lift(o)
        if o is NotImplemented:
            return NotImplemented
        a, b = self, o
        ap, an, az = a._sign_pos()
        bp, bn, bz = b._sign_pos()
        ainf = OR(a.pinf(), a.ninf())
        binf = OR(b.pinf(), b.ninf())
        isnan = OR(a.nan(), b.nan(), AND(ainf, binf), AND(az, bz))
        # x/0 with x != 0 (zero is +0: sign follows the numerator), inf/finite
        toinf = OR(AND(bz, NOT(az)), AND(ainf, b.fin()))
        possign = OR(AND(bz, ap), AND(ainf, NOT(bz), OR(AND(ap, bp), AND(an, bn))), AND(ainf, bz, ap))
        tozero = AND(a.fin(), binf)
        k = ite(isnan, NAN, ite(toinf, ite(possign, PINF, NINF), FIN))
        v = iter_(tozero, ZERO, a.v / b.v)
        return XReal(k, v)

    def __rtruediv__(self, o):
        o = XReal.lift(o)
        if o is NotImplemented:
            return NotImplemented
        return o.__truediv__(self)

    def __abs__(self):
        k = ite(OR(self.pinf(), self.ninf()), PINF, self.k)
        return XReal(k, z3.If(self.v >= 0, self.v, -self.v))

    def sign(self):
        k = ite(self.nan(), NAN, FIN)
        v = iter_(self.pinf(), ONE, iter_(self.ninf(), -ONE, z3.If(self.v > 0, ONE, z3.If(self.v < 0, -ONE, ZERO))))
        return XReal(k, v)

    def __pow__(self, o):
        o = XReal.lift(o)
        if o is NotImplemented:
            return NotImplemented
        return xpow(self, o)

    def __rpow__(self, o):
        o = XReal.lift(o)
        if o is NotImplemented:
            return NotImplemented
        return xpow(o, self)

    # ---- elementary functions (numpy object dispatch) ---------------------------
    def sqrt(self):
        neg = AND(self.fin(), self.v < 0)
        k = ite(OR(self.nan(), self.ninf(), neg), NAN, ite(self.pinf(), PINF, FIN))
        return XReal(k, UF["sqrt"](self.v))

    def log(self):
        neg = AND(self.fin(), self.v < 0)
        zero = AND(self.fin(), self.v == 0)
        k = ite(OR(self.nan(), self.ninf(), neg), NAN, ite(self.pinf(), PINF, ite(zero, NINF, FIN)))
        return XReal(k, UF["log"](self.v))

    def log2(self):
        r = self.log()
        return XReal(r.k, UF["log2"](self.v))

    def log10(self):
        r = self.log()
        return XReal(r.k, UF["log10"](self.v))

    def exp(self):
        k = ite(self.nan(), NAN, ite(self.pinf(), PINF, FIN))
        return XReal(k, iter_(self.ninf(), ZERO, UF["exp"](self.v)))

    def _periodic(self, name):
        k = ite(self.fin(), FIN, NAN)
        return XReal(k, UF[name](self.v))

    def sin(self): return self._periodic("sin")
    def cos(self): return self._periodic("cos")
    def tan(self): return self._periodic("tan")

    def sinh(self):
        return XReal(self.k, UF["sinh"](self.v))

    def cosh(self):
        k = ite(OR(self.pinf(), self.ninf()), PINF, self.k)
        return XReal(k, UF["cosh"](self.v))

    def tanh(self):
        k = ite(self.nan(), NAN, FIN)
        return XReal(k, iter_(self.pinf(), ONE, iter_(self.ninf(), -ONE, UF["tanh"](self.v))))

    def arctan(self):
        k = ite(self.nan(), NAN, FIN)
        return XReal(k, UF["arctan"](self.v))

    def arcsinh(self):
        return XReal(self.k, UF["arcsinh"](self.v))

    def _bounded(self, name, lo, hi):
        out = AND(self.fin(), OR(self.v < lo, self.v > hi))
        k = ite(OR(NOT(self.fin()), out), NAN, FIN)
        return XReal(k, UF[name](self.v))

    def arcsin(self): return self._bounded("arcsin", -1, 1)
    def arccos(self): return self._bounded("arccos", -1, 1)

    def arctanh(self):
        out = AND(self.fin(), OR(self.v < -1, self.v > 1))
        k = ite(OR(NOT(self.fin()), out), NAN, ite(AND(self.fin(), self.v == 1), PINF, ite(AND(self.fin(), self.v == -1), NINF, FIN)))
        return XReal(k, UF["arctanh"](self.v))

    def arccosh(self):
        k = ite(OR(self.nan(), self.ninf(), AND(self.fin(), self.v < 1)), NAN, ite(self.pinf(), PINF, FIN))
        return XReal(k, UF["arccosh"](self.v))

    def conjugate(self):
        return self

    # comparisons (used by max/min in host code): on finite values only
    def _cmp(self, o, op):
        o = XReal.lift(o)
        if o is NotImplemented:
            return NotImplemented
        c = AND(self.fin(), o.fin(), op(self.v, o.v))
        return c if isinstance(c, bool) else SBool(c)

    def __lt__(self, o): return self._cmp(o, lambda a, b: a < b)
    def __le__(self, o): return self._cmp(o, lambda a, b: a <= b)
    def __gt__(self, o): return self._cmp(o, lambda a, b: a > b)
    def __ge__(self, o): return self._cmp(o, lambda a, b: a >= b)

    def __float__(self):
        from .sym import SymbolicConcretisation
        raise SymbolicConcretisation("float() of an extended symbolic real")

    def __format__(self, spec):
        return f"<XReal kind={self.k} val={self.v}>"

    def __repr__(self):
        return f"XReal(kind={self.k}, val={self.v})"


def xpow(a: XReal, b: XReal) -> XReal:
    """np.power(a, b) for a CONSTANT finite exponent b (python-known)"""
    if not (_is_py(b.k) and b.k == FIN and z3.is_rational_value(b.v)):
        # symbolic exponent: only finite positive bases are modelled
        k = ite(AND(a.fin(), a.v > 0, b.fin()), FIN, NAN)
        return XReal(k, POW(a.v, b.v))
    e = Fraction(b.v.numerator_as_long(), b.v.denominator_as_long())
    if e == 0:
        return XReal(FIN, ONE)
    ap, an, az = a._sign_pos()
    if e.denominator == 1:
        n = abs(int(e))
        even = (n % 2 == 0)
        t = a.v
        r = t
        for _ in range(min(n, 12) - 1):
            r = r * t
        if n > 12:
            r = POW(a.v, b.v)
        if e > 0:
            k = ite(a.nan(), NAN, ite(a.pinf(), PINF, ite(a.ninf(), PINF if even else NINF, FIN)))
            return XReal(k, r)
        # negative integer power: 0 -> +inf, +-inf -> 0
        inf_in = OR(a.pinf(), a.ninf())
        k = ite(a.nan(), NAN, ite(az, PINF, FIN))
        return XReal(k, iter_(inf_in, ZERO, 1 / r))
    # non-integer exponent
    neg = AND(a.fin(), a.v < 0)
    if e > 0:
        # NumPy evaluates x**0.5 as sqrt(x): (-inf)**0.5 is NaN, other fractional powers of -inf are +inf
        ninf_nan = a.ninf() if e == Fraction(1, 2) else False
        k = ite(OR(a.nan(), neg, ninf_nan), NAN, ite(OR(a.pinf(), a.ninf()), PINF, FIN))
        v = iter_(az, ZERO, UF["sqrt"](a.v) if e == Fraction(1, 2) else POW(a.v, b.v))
        return XReal(k, v)
    inf_in = OR(a.pinf(), a.ninf())
    k = ite(OR(a.nan(), neg), NAN, ite(az, PINF, FIN))
    base = (1 / UF["sqrt"](a.v)) if e == Fraction(-1, 2) else POW(a.v, b.v)
    return XReal(k, iter_(inf_in, ZERO, base))
