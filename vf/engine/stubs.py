"""Nondeterministic solver stubs S4 / S5 (DESIGN.md 1.2), applied from outside:

S4  optyx.solvers.scipy_solver.minimize   (module seam)
S5  scipy.optimize.linprog                (imported inside solve_lp at call time)

A stub records the arguments it was given and answers according to `mode`:
  'symbolic'  an arbitrary reply allowed by the documented SciPy contract
              (free reals for x, success / status / message substrings are
              explorer choices; fun is tied to the callable / cost vector it
              was passed; x respects bounds that were passed to a
              bounds-capable method; NO feasibility promise for minimize)
  'fixed'     a non-branching reply (success=False, message 'stub', x=x0):
              used by the history properties where the subject is what is
              passed, not how the reply is mapped
  'raise'     raise the configured exception (C20)
"""
from __future__ import annotations

import contextlib
import types

import numpy as np

from .sym import Explorer, SReal, SymStr, assume, choose

BOUNDS_METHODS = {"L-BFGS-B", "TNC", "SLSQP", "Powell", "trust-constr", "Nelder-Mead"}


class Reply(types.SimpleNamespace):
    pass


class MinimizeStub:
    def __init__(self, mode="symbolic", exc=None, fault_hook=None, tag="m"):
        self.mode = mode
        self.exc = exc
        self.calls = []
        self.fault_hook = fault_hook  # callable(call_record) run before replying (C20 callback faults)
        self.tag = tag

    def __call__(self, fun, x0, args=(), method=None, jac=None, hess=None, hessp=None, bounds=None,
                 constraints=(), tol=None, callback=None, options=None, **kw):
        rec = dict(fun=fun, x0=np.array(x0, dtype=object, copy=True), method=method, jac=jac, hess=hess,
                   bounds=None if bounds is None else [tuple(b) for b in bounds],
                   constraints=constraints, tol=tol, options=options, callback=callback, kw=kw)
        self.calls.append(rec)
        k = len(self.calls)
        if self.fault_hook is not None:
            self.fault_hook(rec)
        if self.mode == "raise":
            raise self.exc
        n = len(x0)
        if self.mode == "fixed":
            x = np.array(list(x0), dtype=object)
            return Reply(x=x, fun=fun(x), success=False, message="stub", nit=0, status=9)
        # ---- symbolic reply ------------------------------------------------
        x = np.empty(n, dtype=object)
        for i in range(n):
            x[i] = SReal.var(f"{self.tag}{k}_x{i}")
        if bounds is not None and method in BOUNDS_METHODS:
            for i, (lb, ub) in enumerate(bounds):
                if lb is not None and not _is_inf(lb):
                    assume(x[i] >= lb)
                if ub is not None and not _is_inf(ub):
                    assume(x[i] <= ub)
        success = choose(f"{self.tag}{k}.success", [True, False])
        msg = SymStr(f"{self.tag}{k}.msg")
        f = fun(x)
        return Reply(x=x, fun=f, success=success, message=msg, nit=7, status=0 if success else 9)


def _is_inf(v):
    try:
        return isinstance(v, (float, np.floating)) and not np.isfinite(v)
    except Exception:  # noqa: BLE001
        return False


class LinprogStub:
    def __init__(self, mode="symbolic", exc=None, tag="lp"):
        self.mode = mode
        self.exc = exc
        self.calls = []
        self.tag = tag

    def __call__(self, c, A_ub=None, b_ub=None, A_eq=None, b_eq=None, bounds=None, method="highs", **kw):
        # snapshot the arrays: the caller may mutate them in place after the call
        snap = lambda a: None if a is None else np.array(a, dtype=object, copy=True)  # noqa: E731
        rec = dict(c=snap(c), A_ub=snap(A_ub), b_ub=snap(b_ub), A_eq=snap(A_eq), b_eq=snap(b_eq),
                   bounds=None if bounds is None else [tuple(b) for b in bounds], method=method, kw=kw)
        self.calls.append(rec)
        k = len(self.calls)
        if self.mode == "raise":
            raise self.exc
        n = len(c)
        if self.mode == "fixed":
            return Reply(x=None, fun=None, success=False, status=4, message="stub", nit=0)
        status = choose(f"{self.tag}{k}.status", [0, 1, 2, 3, 4])
        has_x = True if status == 0 else choose(f"{self.tag}{k}.has_x", [True, False])
        if not has_x:
            return Reply(x=None, fun=None, success=False, status=status, message=f"status {status}", nit=3)
        x = np.empty(n, dtype=object)
        for i in range(n):
            x[i] = SReal.var(f"{self.tag}{k}_x{i}")
        if status == 0:
            # SciPy's documented contract for success, on the arrays it was passed.
            # bounds=None means SciPy's default (0, None) for every variable.
            bl = bounds if bounds is not None else [(0, None)] * n
            for i, (lb, ub) in enumerate(bl):
                if lb is not None and not _is_inf(lb):
                    assume(x[i] >= lb)
                if ub is not None and not _is_inf(ub):
                    assume(x[i] <= ub)
            if A_ub is not None:
                for r in range(len(A_ub)):
                    assume(_dot(A_ub[r], x) <= b_ub[r])
            if A_eq is not None:
                for r in range(len(A_eq)):
                    assume(_dot(A_eq[r], x) == b_eq[r])
        return Reply(x=x, fun=_dot(c, x), success=(status == 0), status=status, message=f"status {status}", nit=3)


def _dot(a, x):
    s = 0.0
    for u, v in zip(a, x):
        s = s + u * v
    return s


@contextlib.contextmanager
def patched(minimize=None, linprog=None):
    import scipy.optimize
    import optyx.solvers.scipy_solver as ss
    old_m, old_l = ss.minimize, scipy.optimize.linprog
    if minimize is not None:
        ss.minimize = minimize
    if linprog is not None:
        scipy.optimize.linprog = linprog
    try:
        yield
    finally:
        ss.minimize = old_m
        scipy.optimize.linprog = old_l
