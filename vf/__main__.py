import sys
from vf.framework import main
sys.exit(main())
