"""Concrete replay of a counterexample: plain floats, unpatched NumPy, the real
optyx code.  Exit 1 iff the difference reproduces, 0 if not, 2 on error."""
import importlib
import json
import sys


def main():
    path = sys.argv[1]
    with open(path) as fh:
        payload = json.load(fh)
    mod = importlib.import_module(f"vf.props.{payload['property'].lower()}")
    ok, detail = mod.replay(payload)
    print(detail)
    return 1 if ok else 0


if __name__ == "__main__":
    try:
        sys.exit(main())
    except SystemExit:
        raise
    except BaseException as e:  # noqa: BLE001
        import traceback
        traceback.print_exc()
        print(f"replay error: {type(e).__name__}: {e}")
        sys.exit(2)
