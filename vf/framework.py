"""Driver shared by all property checks.

python -m vf <ID> [--tier quick|thorough] [--replay path]

Exit codes: 0 held on everything decided (KNOWN-FINDING lines allowed);
1 VIOLATION (reproduced concretely against the real code, not listed in
known_findings.json); 2 harness / infrastructure error; 3 a solver
counterexample that could not be reproduced (encoding too weak).
"""
from __future__ import annotations

import argparse
import fnmatch
import hashlib
import importlib
import json
import multiprocessing as mp
import os
import signal
import subprocess
import sys
import time
import traceback

MAX_REPORTED = 8  # distinct unlisted violations replayed and reported per run
VERIF = os.path.dirname(os.path.dirname(os.path.abspath(__file__)))
REPO_SRC = (os.environ.get("VERIF_OPTYX_SRC") or "/repo/src") + "/optyx"


# --------------------------------------------------------------------------
# result records produced by property modules (plain dicts, picklable)
# --------------------------------------------------------------------------
def proved(what, **kw):
    return dict(status="proved", what=what, **kw)


def violation(sig, what, replay, **kw):
    return dict(status="violation", sig=sig, what=what, replay=replay, **kw)


def inconclusive(what, **kw):
    return dict(status="inconclusive", what=what, **kw)


def harness_error(what, **kw):
    return dict(status="error", what=what, **kw)


# --------------------------------------------------------------------------
# which optyx functions were executed symbolically (sys.monitoring)
# --------------------------------------------------------------------------
_SEEN_FUNCS: set = set()
_SEEN_LINES: set = set()


def start_function_monitor(lines=False):
    mon = sys.monitoring
    tool = 3
    try:
        mon.use_tool_id(tool, "vf")
    except ValueError:
        return

    def on_start(code, offset):
        fn = code.co_filename
        if fn.startswith(REPO_SRC):
            _SEEN_FUNCS.add(fn[len(REPO_SRC) + 1:] + ":" + code.co_qualname)
        return mon.DISABLE

    mon.register_callback(tool, mon.events.PY_START, on_start)
    ev = mon.events.PY_START
    if lines:
        def on_line(code, line):
            fn = code.co_filename
            if fn.startswith(REPO_SRC):
                _SEEN_LINES.add((fn[len(REPO_SRC) + 1:], line))
            return mon.DISABLE
        mon.register_callback(tool, mon.events.LINE, on_line)
        ev |= mon.events.LINE
    mon.set_events(tool, ev)


# --------------------------------------------------------------------------
# worker
# --------------------------------------------------------------------------
_MOD = None


class ItemTimeout(BaseException):
    pass


def _alarm(signum, frame):
    raise ItemTimeout()


def _worker_init(modname, tier, seed, lines):
    global _MOD
    sys.setrecursionlimit(10000)
    from vf.engine import npshim
    npshim.install()
    start_function_monitor(lines)
    _MOD = importlib.import_module(modname)
    if hasattr(_MOD, "worker_init"):
        _MOD.worker_init(tier, seed)
    from vf.engine import smt
    smt.CROSS["every"] = int(os.environ.get("VERIF_CROSS_EVERY", "60" if tier == "thorough" else "0") or 0)
    if tier == "thorough":
        smt.RATNORM_CROSS_EVERY = 20
        smt.RATNORM_CROSS_TIMEOUT_MS = 8000
    signal.signal(signal.SIGALRM, _alarm)


def _worker_run(args):
    idx, item, budget = args
    from vf.engine import sym, smt
    sym.STATS.reset()
    t0 = time.perf_counter()
    signal.alarm(int(budget))
    try:
        res = _MOD.check(item)
    except ItemTimeout:
        res = [inconclusive(f"item exceeded wall budget of {budget}s", item=repr(item)[:300])]
    except sym.ExplorationBudget as e:
        res = [inconclusive(f"path budget: {e}", item=repr(item)[:300])]
    except BaseException as e:  # noqa: BLE001
        res = [harness_error(f"{type(e).__name__}: {e}", item=repr(item)[:300], tb=traceback.format_exc()[-1500:])]
    finally:
        signal.alarm(0)
    funcs = sorted(_SEEN_FUNCS)
    lines = sorted(_SEEN_LINES)
    _SEEN_FUNCS.clear()
    _SEEN_LINES.clear()
    cross = dict(smt.CROSS)
    smt.CROSS.update(done=0, agree=0, disagree=0, cvc5_unknown=0, log=[])
    cross["ratnorm"] = dict(smt.RATNORM)
    # equalities that fail exactly but hold within 1e-7 relative for ALL points (constants folded in floating point by the code)
    cross["ratnorm"]["equal_up_to_rounding_S7"] = smt.ROUNDING["level"]
    smt.ROUNDING["level"] = 0
    for k in smt.RATNORM:
        if k != "n":
            smt.RATNORM[k] = 0
    cross["ratnorm"].pop("n", None)
    return idx, res, sym.STATS.as_dict(), funcs, lines, time.perf_counter() - t0, cross


# --------------------------------------------------------------------------
# known findings
# --------------------------------------------------------------------------
def load_findings(pid):
    path = os.path.join(VERIF, "known_findings.json")
    if not os.path.exists(path):
        return []
    with open(path) as fh:
        data = json.load(fh)
    return [f for f in data if f.get("property") == pid and f.get("state") == "finding"]


def match_finding(sig, findings):
    for f in findings:
        pats = f["signature"] if isinstance(f["signature"], list) else [f["signature"]]
        for p in pats:
            if sig == p or fnmatch.fnmatchcase(sig, p):
                return f
    return None


# --------------------------------------------------------------------------
# concrete replay in a fresh, unpatched interpreter
# --------------------------------------------------------------------------
def write_replay(pid, payload):
    os.makedirs(os.path.join(VERIF, "replays"), exist_ok=True)
    blob = json.dumps(payload, sort_keys=True, default=str)
    h = hashlib.sha1(blob.encode()).hexdigest()[:12]
    path = os.path.join(VERIF, "replays", f"{pid}-{h}.json")
    with open(path, "w") as fh:
        json.dump(payload, fh, indent=1, sort_keys=True, default=str)
    return path


def run_replay(path, timeout=300):
    """-> (reproduced: bool|None, detail)"""
    try:
        src = os.environ.get("VERIF_OPTYX_SRC")
        p = subprocess.run([sys.executable, "-m", "vf.replay", path], cwd=VERIF, capture_output=True,
                           text=True, timeout=timeout, env=dict(os.environ, PYTHONPATH=(src + ":" if src else "") + VERIF))
    except subprocess.TimeoutExpired:
        return None, "replay timed out"
    out = (p.stdout or "").strip().splitlines()
    last = out[-1] if out else ""
    if p.returncode == 1:
        return True, last
    if p.returncode == 0:
        return False, last
    return None, (p.stderr or "")[-800:] + last


# --------------------------------------------------------------------------
# main
# --------------------------------------------------------------------------
def main(argv=None):
    ap = argparse.ArgumentParser()
    ap.add_argument("pid")
    ap.add_argument("--tier", default=os.environ.get("VERIF_TIER", "quick"))
    ap.add_argument("--replay")
    ap.add_argument("--jobs", type=int, default=int(os.environ.get("VERIF_JOBS", "16")))
    ap.add_argument("--limit", type=int, default=0, help="debug: only the first N items")
    ap.add_argument("--only", default="", help="debug: substring filter on repr(item)")
    ap.add_argument("--lines", action="store_true")
    a = ap.parse_args(argv)
    pid = a.pid.upper()
    tier = a.tier if a.tier in ("quick", "thorough") else "quick"
    seed = int(os.environ.get("VERIF_SEED", "0") or 0)
    modname = f"vf.props.{pid.lower()}"

    if a.replay:
        ok, detail = run_replay(a.replay)
        print(detail)
        if ok:
            print(f"VIOLATION property={pid} replay={a.replay}")
            return 1
        return 0 if ok is False else 2

    t_start = time.perf_counter()
    mod = importlib.import_module(modname)
    items = mod.items(tier, seed)
    if a.only:
        items = [it for it in items if a.only in repr(it)]
    if a.limit:
        items = items[: a.limit]
    budget = getattr(mod, "ITEM_BUDGET_S", {"quick": 120, "thorough": 600})[tier]

    conf = {"points": 0}

    ctx = mp.get_context("fork")
    results = [None] * len(items)
    agg = dict(paths=0, branch_checks=0, branch_time_s=0.0, queries=dict(unsat=0, sat=0, unknown=0),
               query_time_s=0.0, aborted_paths=0, truncated=0)
    funcs: set = set()
    lines: set = set()
    cross = dict(done=0, agree=0, disagree=0, cvc5_unknown=0)
    ratn = {}
    cross_logs = []
    slow = []
    with ctx.Pool(a.jobs, initializer=_worker_init, initargs=(modname, tier, seed, a.lines)) as pool:
        for idx, res, st, fs, ls, dt, cr in pool.imap_unordered(_worker_run, [(i, it, budget) for i, it in enumerate(items)], chunksize=1):
            results[idx] = res
            for k in ("paths", "branch_checks", "aborted_paths", "truncated"):
                agg[k] += st[k]
            agg["branch_time_s"] += st["branch_time_s"]
            agg["query_time_s"] += st["query_time_s"]
            for k in agg["queries"]:
                agg["queries"][k] += st["queries"][k]
            funcs.update(fs)
            lines.update(tuple(x) for x in ls)
            for k in cross:
                cross[k] += cr.get(k, 0)
            for k, v in cr.get("ratnorm", {}).items():
                ratn[k] = ratn.get(k, 0) + v
            cross_logs.extend(cr.get("log", []))
            slow.append((dt, idx))

    # ---------------------------------------------------------------- triage
    n_proved = n_inconc = 0
    closures = set()
    skipped = {}
    inconc_samples = []
    errors = []
    viols = []
    samples = []
    nontrivial = set()
    for idx, res in enumerate(results):
        had_q = False
        for r in res or []:
            if r["status"] == "proved":
                n_proved += 1
                had_q = True
            elif r["status"] == "conformance":
                conf["points"] += r.get("points", 0)
                w = r.get("what", "")
                for pre in ("fast paths: ", "paths: ", "closures: "):
                    if w.startswith(pre):
                        closures.update(x for x in w[len(pre):].split(",") if x)
                if w.startswith("not treated as LP") or w.startswith("rejected with") or "not applicable" in w or "not reached" in w:
                    skipped[w.split(":")[0][:60]] = skipped.get(w.split(":")[0][:60], 0) + 1
            elif r["status"] == "inconclusive":
                n_inconc += 1
                if len(inconc_samples) < 8:
                    inconc_samples.append(r["what"][:200])
            elif r["status"] == "error":
                errors.append(r)
            elif r["status"] == "violation":
                viols.append(r)
                had_q = True
        if had_q:
            nontrivial.add(repr(items[idx]))
        if len(samples) < 6 and res:
            samples.append({"item": repr(items[idx])[:400], "results": [r["what"][:200] for r in res[:4]]})

    findings = load_findings(pid)
    reported = {}   # sig -> (path, detail, what)
    known_hit = {}  # finding.what -> {n, sig, replay}
    unreproduced = []
    tries = {}
    counts = {}
    not_replayed = 0
    for v in viols:
        sig = v["sig"]
        f = match_finding(sig, findings)
        key = ("F", f["what"]) if f else ("S", sig)
        counts[key] = counts.get(key, 0) + 1
        if key in tries and tries[key] == "confirmed":
            continue
        if isinstance(tries.get(key), int) and tries[key] >= 3:
            continue
        if not f and len(reported) >= MAX_REPORTED:
            not_replayed += 1
            continue
        payload = dict(v["replay"], property=pid, signature=sig, what=v["what"])
        path = write_replay(pid, payload)
        ok, detail = run_replay(path)
        if not ok and "values_alt" in payload:
            # the float-visible model did not reproduce: try the solver's first model
            path2 = write_replay(pid, dict(payload, values=payload["values_alt"], values_alt=None))
            ok2, detail2 = run_replay(path2)
            if ok2:
                ok, detail, path = ok2, detail2, path2
        if ok:
            tries[key] = "confirmed"
            if f:
                known_hit[f["what"]] = {"n": 0, "sig": sig, "replay": path}
            else:
                reported[sig] = (path, detail, v["what"])
        elif v.get("rounding_level"):
            # in exact arithmetic both sides differ at the solver's point by less than 1e-9 (1 + |value|) and no float run shows a
            # difference: a constant folded in floating point by the code (rounding is outside the model, S7)
            n_inconc += 1
            if len(inconc_samples) < 8:
                inconc_samples.append("rounding-level difference only (S7), not reproduced in floats: " + v["what"][:140])
            tries[key] = (tries.get(key) or 0) + 1
        elif v.get("weak"):
            # candidate from the abstracted encoding only: not a counterexample of the real query
            n_inconc += 1
            if len(inconc_samples) < 8:
                inconc_samples.append("weak candidate not reproduced: " + v["what"][:160])
            tries[key] = (tries.get(key) or 0) + 1
        else:
            tries[key] = (tries.get(key) or 0) + 1
            unreproduced.append((key, sig, path, detail, v["what"]))
    for k, v in known_hit.items():
        v["n"] = counts[("F", k)]
    unreproduced = [(s, p, d, w) for key, s, p, d, w in unreproduced if tries.get(key) != "confirmed"]

    wall = time.perf_counter() - t_start
    meta = getattr(mod, "META", {})
    shortcut_cov = {}
    if hasattr(mod, "shortcut_coverage"):
        try:
            shortcut_cov = mod.shortcut_coverage(funcs, lines)
        except Exception as e:  # noqa: BLE001
            shortcut_cov = {"error": str(e)}
    evidence = {
        "property_id": pid,
        "tier": tier,
        "seed": seed,
        "level": getattr(mod, "LEVEL", "model_checking"),
        "wall_s": round(wall, 2),
        "violations": len(reported),
        "assumptions": meta.get("assumptions", []),
        "coverage": {
            "evaluations": agg["queries"]["unsat"] + agg["queries"]["sat"] + agg["queries"]["unknown"],
            "distinct_nontrivial": len(nontrivial),
            "rule": meta.get("rule", ""),
            "samples": samples or [{"note": "no items"}],
            "states": agg["paths"] or len(nontrivial),
            "transitions": agg["branch_checks"] + agg["queries"]["unsat"] + agg["queries"]["sat"] + agg["queries"]["unknown"],
            "traces_validated_against_impl": conf.get("points", 0) + len(reported) + len(known_hit),
            "exhaustive": bool(meta.get("exhaustive_within_bounds", False)),
            "technique": meta.get("technique", "symbolic execution of the real optyx code over a z3 numeric domain; validity queries discharged by z3"),
            "programs": len(items),
            "paths_explored": agg["paths"],
            "obligations_proved": n_proved,
            "inconclusive": n_inconc,
            "inconclusive_samples": inconc_samples,
            "harness_errors": len(errors),
            "queries_by_verdict": agg["queries"],
            "solver_time_s": round(agg["query_time_s"], 2),
            "branch_feasibility_checks": agg["branch_checks"],
            "branch_solver_time_s": round(agg["branch_time_s"], 2),
            "path_budget_truncations": agg["truncated"],
            "cvc5_cross_checks": cross,
            "denominator_clearing_prepass": ratn,
            "conformance_points": conf.get("points", 0),
            "bounds": meta.get("bounds", {}).get(tier, meta.get("bounds", {})),
            "outside_claim": meta.get("outside", []),
            "functions_executed_symbolically": sorted(funcs),
            "shortcut_coverage": shortcut_cov,
            "closures_reached": sorted(closures),
            "cases_outside_the_property": skipped,
            "known_findings_hit": [{"what": k, **v} for k, v in known_hit.items()],
            "violations_reported": [{"sig": s, "replay": p, "detail": d[:300], "what": w[:300]} for s, (p, d, w) in reported.items()],
            "further_counterexamples_not_replayed": not_replayed,
            "unreproduced_counterexamples": [{"sig": s, "replay": p, "detail": d[:300]} for s, p, d, _ in unreproduced[:10]],
            "error_samples": [{"what": e["what"][:300], "item": e.get("item", "")[:200]} for e in errors[:5]],
            "jobs": a.jobs,
        },
    }
    evdir = os.environ.get("VERIF_EVIDENCE_DIR") or os.path.join(VERIF, "evidence")
    os.makedirs(evdir, exist_ok=True)
    with open(os.path.join(evdir, f"{pid}.json"), "w") as fh:
        json.dump(evidence, fh, indent=1, default=str)

    print(f"[{pid}/{tier}] items={len(items)} paths={agg['paths']} queries={agg['queries']} proved={n_proved} "
          f"inconclusive={n_inconc} errors={len(errors)} solver={agg['query_time_s']:.1f}s wall={wall:.1f}s "
          f"cvc5x={cross} ratnorm={ratn}")
    slow.sort(reverse=True)
    if os.environ.get("VERIF_SLOW"):
        for dt, idx in slow[:8]:
            print(f"  slow item {dt:.1f}s: {repr(items[idx])[:160]}")
    for k, v in known_hit.items():
        print(f"KNOWN-FINDING: property={pid} {k} (x{v['n']}; e.g. {v['replay']})")
    rc = 0
    if cross["disagree"]:
        print(f"HARNESS-ERROR z3/cvc5 disagreement on {cross['disagree']} queries")
        for l in cross_logs[:2]:
            print(l[:1500])
        rc = 2
    if errors:
        for e in errors[:5]:
            print("HARNESS-ERROR", e["what"][:500], "| item:", e.get("item", "")[:300])
            if e.get("tb"):
                print(e["tb"][-1200:])
        rc = 2
    for sig, (path, detail, what) in reported.items():
        print(f"  violation: {what[:300]} :: {detail[:300]} [{sig}]")
        print(f"VIOLATION property={pid} replay={path}")
        rc = 1
    if rc == 0 and unreproduced:
        for sig, path, detail, what in unreproduced[:5]:
            print(f"UNREPRODUCED counterexample [{sig}] {what[:200]} :: {detail[:200]} ({path})")
        rc = 3
    return rc


if __name__ == "__main__":
    sys.exit(main())
