#!/bin/bash
# dev helper: every stored seeded change against the check of the property it targets (throw-away worktrees; /repo untouched)
cd /verif
for d in seeded/C*; do
  n=$(basename $d); id=${n%%-*}
  ./tools_seed_scratch.sh $n $id 2>&1 | grep "^== seed" | cut -c1-120
done
