#!/bin/bash
# dev helper: run every claimed check of MANIFEST.json (quick or thorough) and summarise
cd "$(dirname "$0")"
TIER=${1:-quick}
for id in $(python3 -c "import json; print(' '.join(c['property_id'] for c in json.load(open('MANIFEST.json'))['checks']))"); do
  s=$(date +%s)
  out=$(./run.sh $id $TIER 2>&1)
  rc=$?
  e=$(date +%s)
  echo "== $id rc=$rc $((e-s))s :: $(echo "$out" | grep "^\[$id" | cut -c1-230)"
  echo "$out" | grep -E "^VIOLATION|^KNOWN-FINDING|^HARNESS|^UNREPRO" | cut -c1-260 | head -6
done
