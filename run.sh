#!/bin/bash
# ./run.sh <ID> [quick|thorough]   |   ./run.sh <ID> --replay <path>
cd "$(dirname "$0")"
./setup.sh >/dev/null || { echo "HARNESS-ERROR setup failed"; exit 2; }
ID="$1"; shift
if [ "$1" = "--replay" ]; then
  exec env PYTHONPATH=/verif /verif/.venv/bin/python -m vf "$ID" --replay "$2"
fi
TIER="${1:-${VERIF_TIER:-quick}}"; shift || true
export VERIF_TMP="${VERIF_TMP:-/verif/.tmp}"; mkdir -p "$VERIF_TMP"
exec env PYTHONPATH=/verif PYTHONDONTWRITEBYTECODE=1 /verif/.venv/bin/python -m vf "$ID" --tier "$TIER" "$@"
