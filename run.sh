#!/bin/bash
# ./run.sh <ID> [quick|thorough]   |   ./run.sh <ID> --replay <path>
cd "$(dirname "$0")"
./setup.sh >/dev/null || { echo "HARNESS-ERROR setup failed"; exit 2; }
ID="$1"; shift
if [ "$1" = "--replay" ]; then
  exec env PYTHONPATH=/verif /verif/.venv/bin/python -m vf "$ID" --replay "$2"
fi
TIER="${1:-${VERIF_TIER:-quick}}"; shift || true
export VERIF_TMP="${VERIF_TMP:-/verif/.tmp}"; mkdir -p "$VERIF_TMP"
# dev only: VERIF_OPTYX_SRC=<dir>/src analyses another checkout (e.g. a scratch worktree holding a seeded change)
# instead of /repo, and VERIF_EVIDENCE_DIR redirects the evidence file; the registered commands use neither.
exec env PYTHONPATH="${VERIF_OPTYX_SRC:+$VERIF_OPTYX_SRC:}/verif" PYTHONDONTWRITEBYTECODE=1 /verif/.venv/bin/python -m vf "$ID" --tier "$TIER" "$@"
