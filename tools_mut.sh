#!/bin/bash
# usage: tools_mut.sh <ID> <file> <python-regex-old> <new>   (dev helper: apply a one-line mutation, run the quick check, revert)
ID=$1; F=$2; OLD=$3; NEW=$4
cd /repo && python3 - "$F" "$OLD" "$NEW" <<'PY'
import sys,re
f,old,new=sys.argv[1:4]
s=open(f).read()
assert old in s, "pattern not found"
s=s.replace(old,new,1)
open(f,'w').write(s)
PY
[ $? -eq 0 ] || exit 9
cd /verif && ./run.sh $ID quick 2>&1 | grep -E "^\[|^VIOLATION|^KNOWN|HARNESS|UNREPRO|violation:" | cut -c1-300 | head -12
cd /repo && git checkout -- .
