#!/usr/bin/env python3
"""Regenerates MANIFEST.json from the table below (dev helper; the manifest
itself is the committed interface)."""
import json
import os

HERE = os.path.dirname(os.path.abspath(__file__))

TECH = "symbolic execution of the real optyx code over a z3 numeric domain (symx); z3 validity queries, cvc5 second opinion"

# id -> (category, text, note, design_ref, technique)
CLAIMED = {
    "C02": ("model_checking",
            "Bounded symbolic model checking: gradient() of the real code is executed on every recipe of the bounded family "
            "(depth<=2/3, all 19 unary ops, all vector/matrix reductions) for every wrt variable; z3 proves equality with a "
            "dual-number oracle for ALL points and ALL symbolic constants on every explored path. A wrong rule yields a model "
            "that is replayed on floats before being reported.",
            "Holds within the recipe bounds only; exact-real arithmetic (no rounding); elementary functions are uninterpreted "
            "functions with instantiated identities; evaluate() is the observation of the derivative tree.",
            "DESIGN.md 2/C02", TECH + "; dual-number derivative oracle"),
}

NOT_YET = {}


def main():
    props = [json.loads(l) for l in open(os.path.join(HERE, "properties.jsonl"))]
    checks = []
    na = []
    for p in props:
        pid = p["id"]
        if pid in CLAIMED:
            cat, text, note, ref, tech = CLAIMED[pid]
            checks.append({
                "property_id": pid,
                "quick_cmd": f"./run.sh {pid} quick",
                "thorough_cmd": f"./run.sh {pid} thorough",
                "evidence_file": f"/verif/evidence/{pid}.json",
                "replay_cmd_template": f"./run.sh {pid} --replay {{path}}",
                "engine": "symx",
                "level_claimed": {"category": cat, "text": text, "design_ref": ref},
                "level_note": note,
                "technique": tech,
            })
        else:
            na.append({"property_id": pid, "reason": NOT_YET.get(pid, "check not built yet in this session (solver-based harness pending); not claimed")})
    man = {
        "version": 1,
        "setup_cmd": "./setup.sh",
        "hooks": {
            "guard": "OPTYX_VERIF",
            "enable": "no hooks are needed: all stubs (float shim, numpy allocation, solver seams) are applied from outside /repo at run time",
            "baseline_off_cmd": "cd /repo && /venv/bin/python -m pytest -ra -q -p no:cacheprovider --timeout=900 --continue-on-collection-errors",
            "source_commits": [],
            "add_only": True,
        },
        "engines": [
            {"name": "symx", "path": "/verif/vf/engine", "serves_properties": sorted(CLAIMED),
             "kind_free_text": "symbolic execution of the unmodified optyx Python code with a z3-backed real-number proxy (SReal), "
                               "re-execution path explorer, NumPy-on-object-arrays reference interpreter, dual-number oracle; z3 5.1 decides, cvc5 1.0 cross-checks"},
        ],
        "checks": checks,
        "not_applicable": na,
        "notes": "Exit codes of every check: 0 held (KNOWN-FINDING lines allowed), 1 VIOLATION reproduced on the real code, 2 harness error, 3 unreproduced solver counterexample. See DESIGN.md.",
    }
    with open(os.path.join(HERE, "MANIFEST.json"), "w") as fh:
        json.dump(man, fh, indent=1)
    print("claimed:", sorted(CLAIMED), "not claimed:", [x["property_id"] for x in na])


if __name__ == "__main__":
    main()
