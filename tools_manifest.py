#!/usr/bin/env python3
"""Regenerates MANIFEST.json from the table below (dev helper; the manifest
itself is the committed interface)."""
import json
import os

HERE = os.path.dirname(os.path.abspath(__file__))

TECH = "symbolic execution of the real optyx code over a z3 numeric domain (symx); z3 validity queries (equalities first pass through a denominator-clearing normal form whose side conditions z3 decides), cvc5 second opinion on unknown"

# id -> (category, text, note, design_ref, technique)
def C(cat, text, note, ref, tech=TECH):
    return (cat, text, note, ref, tech)


COMMON_NOTE = ("Holds within the stated recipe / size / history bounds only. Exact-real arithmetic (floats are their exact rationals; no rounding, "
               "overflow, signed zeros). Elementary functions are uninterpreted functions with instantiated identities. Every solver counterexample is "
               "replayed on plain floats against the real code before it is reported. ")

CLAIMED = {
    "C01": C("model_checking",
             "Bounded symbolic model checking of compile_expression / compile_to_dict_function / CompiledExpression.value / the cached second compile / the deep-tree "
             "builder (threshold forced from outside) and evaluate(): for every recipe of the bounded family and every permutation / superset of its variables the real "
             "code runs on a symbolic point and z3 proves the result equal to the reference formula for ALL points, constants and parameter values; callables built at "
             "one parameter valuation and called after the parameters were updated must give the formula at the NEW values; a third of the family is repeated after "
             "read-only queries (variable sets, repr, hash, Problem listing) on every node. Totality: every Expression subclass found by introspection is reached.",
             COMMON_NOTE, "DESIGN.md 2/C01"),
    "C02": C("model_checking",
             "gradient() of the real code is executed on every recipe of the bounded family (depth<=2/3, all 19 unary ops, all vector/matrix reductions) for every wrt "
             "variable (incl. one that does not occur); z3 proves equality with a dual-number oracle for ALL points and ALL symbolic constants on every explored path, "
             "also when the parameters are updated after differentiation; one inductive step per rule with opaque children (T1).",
             COMMON_NOTE + "evaluate() is the observation of the derivative tree.", "DESIGN.md 2/C02", TECH + "; dual-number derivative oracle"),
    "C03": C("model_checking",
             "compile_jacobian, compile_gradient, CompiledExpression.gradient, compute_jacobian and every jacobian_row implementation are executed symbolically for expression "
             "lists (m<=3) under every permutation / superset of the variables; z3 proves each entry equal to the dual-number derivative, also for callables built "
             "before the parameters were updated. The __name__ of the returned closure is recorded as witness of the fast path taken.",
             COMMON_NOTE, "DESIGN.md 2/C03", TECH + "; dual-number derivative oracle"),
    "C04": C("model_checking",
             "Soundness of every degree traversal (e.degree, compute_degree, recursive, iterative, bounded, is_linear, is_quadratic): a reported degree d is checked by a z3 "
             "query for a point x and step h at which the order-(d+1) finite difference of the REFERENCE formula is non-zero (unsat = polynomial of degree <= d); "
             "asked cold, with sub-expressions classified first (warm caches), after read-only queries on every node and container, and again after the "
             "parameters were updated (from symbolic and from concrete initial values).",
             COMMON_NOTE + "Sat answers may stem from uninterpreted functions and are therefore always replayed numerically.", "DESIGN.md 2/C04",
             TECH + "; finite-difference encoding of polynomial degree"),
    "C05": C("model_checking",
             "The real LinearProgramExtractor runs on linear models written through 54 API forms with SYMBOLIC coefficients, constants, right-hand sides and bounds; z3 proves "
             "for all x and all data that cost.x + constant equals the objective, every row reproduces the user's relation with its sense, columns are the reported variables "
             "and bounds are the declared ones, also for a second extraction after every bound was re-assigned; forms include coefficient arrays of other NumPy dtypes, "
             "powers / quotients of constant sub-expressions, dot products with constant vectors and constant-first (reflected) differences.",
             COMMON_NOTE, "DESIGN.md 2/C05"),
    "C06": C("model_checking",
             "Problem.solve runs against nondeterministic solver stubs (arbitrary point, success flag and message; no feasibility promise); the explorer walks every branch of "
             "the post-solve check, the SLSQP->trust-constr retry and both status mappings; on every path ending OPTIMAL z3 proves every user constraint within the code's "
             "stated tolerance and all declared bounds; 28 models x 10 methods, plus the same obligations for the SECOND solve of a problem object edited in "
             "between (6 edit histories).",
             COMMON_NOTE + "Trusts that SciPy honours the stub contracts S4/S5 (x within passed bounds; linprog success => passed constraints hold). Path budget per (model, method).",
             "DESIGN.md 2/C06", TECH + "; nondeterministic solver stubs"),
    "C07": C("model_checking",
             "Same exploration as C06 with fun tied to the passed callable / cost vector: on every path with values z3 proves objective_value == objective(values) in the "
             "user's orientation incl. constants and parameters; keys(values) == problem variables; Solution[handle] retrieves the right positions for 24 vector / matrix "
             "view recipes; also for the second solve after an edit history (sense flipped with the same objective object, objective replaced, constraints added).",
             COMMON_NOTE + "Trusts result.fun == fun(result.x) (S4) and == c.x (S5).", "DESIGN.md 2/C07", TECH + "; nondeterministic solver stubs"),
    "C08": C("model_checking",
             "The optyx side of LP solving: for every linear model x orientation x LP method, z3 proves (symbolic data) that the instance handed to linprog has the user's "
             "feasible set and cost direction, the requested method, that a repeated solve passes an equal instance, and that statuses 0/1/2/3/4 and the objective are mapped "
             "back correctly. HiGHS itself is trusted (C++ behind FFI).",
             COMMON_NOTE + "HiGHS is modelled as a function of its input honouring the linprog contract; 'same verdict on equivalent inputs' is trusted (validated on 264 concrete instances in the thorough tier only).",
             "DESIGN.md 2/C08", TECH + "; recording / nondeterministic linprog stub"),
    "C09": C("model_checking",
             "The optyx side of NLP solving: what solve_scipy passes to scipy.optimize.minimize is recorded and z3 proves for all x and symbolic data: fun == +/-objective, "
             "jac == grad fun and hess == hess fun (fun itself differentiated with dual numbers through the callable), constraint dicts non-negative/zero exactly on the user's "
             "relation with matching jac (and the right shapes), bounds declared and passed iff supported, x0 inside bounds, method as requested; converged and feasible "
             "replies map to OPTIMAL; the same for the second solve of a problem that first had fewer variables / constraints / another objective.",
             COMMON_NOTE + "Convergence of SLSQP / trust-constr / L-BFGS-B (Fortran/C behind FFI) is outside the claim.", "DESIGN.md 2/C09", TECH + "; recording solver stub; dual numbers through the recorded callables"),
    "C10": C("model_checking",
             "Operand-kind x sense x shape grid (Python / NumPy scalars, 0-d arrays, variables, parameters, expressions, vectors, lists, arrays, matrices; reflected forms; .eq): "
             "z3 proves violation / is_satisfied / one-constraint-per-element semantics for a symbolic point and symbolic right-hand values, and that the SciPy dicts are "
             "non-negative exactly on the relation with jac == grad fun, also on a second solve after the parameters were updated; mismatched shapes must raise.",
             COMMON_NOTE + "One known finding (0-d array on the left of a comparison) is listed in known_findings.json.", "DESIGN.md 2/C10"),
    "C11": C("model_checking",
             "Every vector / matrix construction recipe (views, slices with steps and negative indices, transposes, symmetric sharing, elementwise operators with scalar / "
             "array / list / vector / matrix on either side, reductions, quadratic forms, matrix-vector products) is evaluated by the real code on symbolic values and z3 "
             "proves it equal to the same NumPy operation on object arrays; 376 shape-mismatch programs are enumerated and must raise.",
             COMMON_NOTE, "DESIGN.md 2/C11", TECH + "; NumPy-on-object-arrays reference"),
    "C12": C("model_checking",
             "Exhaustive operation histories (length <= 3 / 4) over {set parameter to a FRESH symbolic value, evaluate, early-compiled call, fresh compile, early-compiled "
             "Jacobian / Hessian, solve via 4 methods}: after every observation z3 proves equality with the reference formula at the CURRENT parameter values for all points "
             "and all values ever set; a model with parameters must never reach linprog.",
             COMMON_NOTE + "Solver reply fixed (non-branching).", "DESIGN.md 2/C12", TECH + "; history enumeration"),
    "C13": C("model_checking",
             "Exhaustive histories (length <= 4 / 5) over minimize / maximize / subject_to (single and list) / bound assignment with symbolic values / solve (LP and NLP "
             "methods) / read: after every solve and read z3 proves the recorded solver arguments equal to those of a fresh Problem built from the current state, and "
             "variables, linearity verdict and get_bounds() are compared; every recorded call is additionally checked against the REFERENCE formulas of the current "
             "state (not only against a fresh optyx problem); histories include failed edits (subject_to raising in the middle of a list) and interleavings of "
             "derivative-free and derivative-based methods.",
             COMMON_NOTE + "Reference = a fresh Problem over the same expression and variable objects.", "DESIGN.md 2/C13", TECH + "; history enumeration"),
    "C14": C("model_checking",
             "Process-wide caches are discovered at run time; for 10 target models and every prefix of <= 2 / 3 name-colliding pool models (each compiled, differentiated, "
             "classified, solved) z3 proves all observations on the target equal to those after cache_clear() of every cache, for all points and the values of every model; "
             "cache overflow is driven concretely; prefixes of length <= 1 / 2 are repeated with the deep-tree builders forced.",
             COMMON_NOTE + "cache_clear() of all discovered caches is taken as equivalent to a fresh process.", "DESIGN.md 2/C14", TECH + "; history enumeration"),
    "C15": C("model_checking",
             "Both algorithms on every tree: the four _RECURSION_THRESHOLD attributes are set from outside to 0, huge and 1..6; for chains of 2..6 terms (all 19 unary "
             "functions, 13 vector/matrix node kinds, parameters) over + - * / and **, left-deep / right-deep / balanced, z3 proves variables, degree, gradient, compiled "
             "value and compiled gradient equal to the reference (degree also with sub-expressions classified first); genuinely deep chains (450 / 900 symbolic; 5000 / 20000 for gradient, degree, variables) run at the real "
             "threshold with the default recursion limit.",
             COMMON_NOTE, "DESIGN.md 2/C15"),
    "C16": C("model_checking",
             "Exhaustive case split over objective forms (every shortcut arm) x constraint forms, digit boundaries 9->10 and 99->100, tied names, 4 hash seeds: the variable "
             "list must equal the names flowing into the reference formula (name-set run), in independently computed natural order, unique; z3 proves get_bounds() equal to "
             "the declared symbolic bounds and decides dependence queries for any unlisted variable; containers whose base names carry digits and views whose names collide are included.",
             COMMON_NOTE + "The set / order part has no real-valued inputs; the solver's contribution there is limited to bounds and dependence queries.", "DESIGN.md 2/C16",
             TECH + "; exhaustive explorer enumeration"),
    "C17": C("model_checking",
             "compute_hessian and compile_hessian (diagonal shortcuts, upper-triangle mirroring) are executed symbolically for every permutation / superset of the variables; z3 "
             "proves every entry equal to the nested-dual second derivative of the reference formula (hence symmetric).",
             COMMON_NOTE, "DESIGN.md 2/C17", TECH + "; nested dual numbers"),
    "C18": C("model_checking",
             "Finite product fully enumerated: 14 declaration routes x {integer, binary} x LP/NLP x 8 methods x strict: strict raises IntegerVariableError listing exactly the "
             "non-continuous variables with zero solver invocations; otherwise one warning naming exactly them and z3 proves the recorded solver arguments equal to the same "
             "model with domains set to continuous; binaries carry [0,1] for symbolic declared bounds; the same when the solve is not the first solve of the problem object.",
             COMMON_NOTE, "DESIGN.md 2/C18", TECH + "; exhaustive explorer enumeration"),
    "C19": C("model_checking",
             "Every derivative closure family is executed over XReal (extended reals with IEEE/NumPy special-value rules as z3 If-terms, validated against NumPy on every run) "
             "with FINITE symbolic inputs; the sanitiser's input is recorded; z3 proves all outputs finite, finite raw entries unchanged, NaN->0, +-inf->+-1e16, and "
             "vectorised == general path and recursive == deep-tree algorithms entrywise including singular points.",
             COMMON_NOTE + "Overflow of finite operations and signed zeros are outside the model.", "DESIGN.md 2/C19", TECH + "; extended-real domain XReal"),
    "C20": C("fault_enumeration",
             "Full product of fault location (solver entry, k-th objective / gradient / constraint / Jacobian / Hessian callback, compile_hessian, compile_jacobian, "
             "compile_expression, LP extraction, linprog, and inside the compiled objective / Jacobian / Hessian callables) x exception class (incl. KeyboardInterrupt) x method x 3 models: outcome FAILED or the exception propagated, "
             "warnings.showwarning and recursion limit restored, and z3 proves the next solve's recorded arguments equal to those of an untouched copy.",
             COMMON_NOTE + "Assumes an exception raised by a callback propagates out of SciPy (validated with the real SciPy in the thorough tier).", "DESIGN.md 2/C20",
             TECH + "; fault-injecting solver stubs"),
}

NOT_YET = {}


EXTRA = {   # additions of the last session, appended to the level texts
    "C08": " The same problem object is also re-oriented with the same objective object (min <-> max and back) between solves.",
    "C11": " Operands also include Python lists / object arrays whose elements are scalar expressions (variables, Parameters), and vector power / function nodes used as operands (nested powers, arithmetic on either side).",
    "C12": " One model takes its parameters from a VectorParameter (elements used through list operands, updated with VectorParameter.set); MatrixParameter is a plain array holder and outside.",
    "C14": " Prefix models are solved with explicit, never-used-before solver arguments; the plain (non-callable) arguments handed to the library by the target's solve are also compared with its solve BEFORE the prefix, because state outside the LRU caches (mutated defaults) is shared with the cache_clear() reference.",
    "C16": " The listing is repeated after the objective was replaced (an earlier objective mentioned two more variables) and after a sense flip.",
    "C18": " The solve under test also runs on a deepcopy / copy of the problem.",
    "C20": " One fault site is a per-call keyword that the library rejects by raising; the plain arguments of the next solve are compared with an untouched copy.",
}
for _k, _t in EXTRA.items():
    _c = CLAIMED[_k]
    CLAIMED[_k] = (_c[0], _c[1] + _t) + tuple(_c[2:])


def main():
    props = [json.loads(l) for l in open(os.path.join(HERE, "properties.jsonl"))]
    checks = []
    na = []
    for p in props:
        pid = p["id"]
        if pid in CLAIMED:
            cat, text, note, ref, tech = CLAIMED[pid]
            checks.append({
                "property_id": pid,
                "quick_cmd": f"./run.sh {pid} quick",
                "thorough_cmd": f"./run.sh {pid} thorough",
                "evidence_file": f"/verif/evidence/{pid}.json",
                "replay_cmd_template": f"./run.sh {pid} --replay {{path}}",
                "engine": "symx",
                "level_claimed": {"category": cat, "text": text, "design_ref": ref},
                "level_note": note,
                "technique": tech,
            })
        else:
            na.append({"property_id": pid, "reason": NOT_YET.get(pid, "check not built yet in this session (solver-based harness pending); not claimed")})
    man = {
        "version": 1,
        "setup_cmd": "./setup.sh",
        "hooks": {
            "guard": "OPTYX_VERIF",
            "enable": "no hooks are needed: all stubs (float shim, numpy allocation, solver seams) are applied from outside /repo at run time",
            "baseline_off_cmd": "cd /repo && /venv/bin/python -m pytest -ra -q -p no:cacheprovider --timeout=900 --continue-on-collection-errors",
            "source_commits": [],
            "add_only": True,
        },
        "engines": [
            {"name": "symx", "path": "/verif/vf/engine", "serves_properties": sorted(CLAIMED),
             "kind_free_text": "symbolic execution of the unmodified optyx Python code with a z3-backed real-number proxy (SReal), "
                               "re-execution path explorer, NumPy-on-object-arrays reference interpreter, dual-number oracle; z3 5.1 decides, cvc5 1.0 cross-checks"},
        ],
        "checks": checks,
        "not_applicable": na,
        "notes": "Exit codes of every check: 0 held (KNOWN-FINDING lines allowed), 1 VIOLATION reproduced on the real code, 2 harness error, 3 unreproduced solver counterexample. See DESIGN.md.",
    }
    with open(os.path.join(HERE, "MANIFEST.json"), "w") as fh:
        json.dump(man, fh, indent=1)
    print("claimed:", sorted(CLAIMED), "not claimed:", [x["property_id"] for x in na])


if __name__ == "__main__":
    main()
