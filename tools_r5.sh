#!/bin/bash
# dev helper: tools_r5.sh <ID> [<check-ID>..] : rebase the round-5 worktree /tmp/wt_r5<ID> onto /repo HEAD, confirm the seeded change
# (tests + demo with / without), store it as seeded/<ID>-e, and run the given quick checks (default: own) against the worktree
ID=$1; shift; CHK=${@:-$ID}
WT=/tmp/wt_r5$ID
cd $WT || exit 9
if [ "$(git rev-parse HEAD)" != "$(git -C /repo rev-parse HEAD)" ]; then
  git stash -q -- src && git checkout -q --detach $(git -C /repo rev-parse HEAD) && git stash pop -q || { echo "REBASE FAILED"; exit 9; }
fi
/verif/tools_seed_verify.sh r5$ID $ID-e
cd /verif && ./tools_seed_wt.sh r5$ID $CHK
