#!/bin/bash
# dev helper: tools_seed_wt.sh <PID-of-worktree> <ID> [<ID>..] : run quick checks against the seeded worktree /tmp/wt_<PID> (leaves /repo alone)
WT=/tmp/wt_$1; shift
for id in "$@"; do
  out=$(cd /verif && VERIF_OPTYX_SRC=$WT/src VERIF_EVIDENCE_DIR=/tmp/ev_seed VERIF_JOBS=${VERIF_JOBS:-8} ./run.sh $id quick 2>&1)
  rc=$?
  echo "== $id rc=$rc :: $(echo "$out" | grep "^\[$id" | cut -c1-150)"
  echo "$out" | grep -E "^  violation|^HARNESS|^UNREPRO" | cut -c1-330 | head -3
done
