#!/bin/bash
# dev helper: tools_seed_scratch.sh <seed-name> <ID> [<ID>..]
# applies seeded/<seed-name>/patch.diff in a throw-away worktree of /repo (outside /repo and /verif), runs the quick checks
# against it (VERIF_OPTYX_SRC), removes the worktree.  /repo itself is never modified.
NAME=$1; shift
WT=/tmp/wt_scratch_$NAME
git -C /repo worktree add -q --detach $WT HEAD || exit 9
git -C $WT apply /verif/seeded/$NAME/patch.diff || { git -C /repo worktree remove --force $WT; exit 9; }
for id in "$@"; do
  out=$(cd /verif && VERIF_OPTYX_SRC=$WT/src VERIF_EVIDENCE_DIR=/tmp/ev_seed_$NAME VERIF_JOBS=${VERIF_JOBS:-8} ./run.sh $id quick 2>&1)
  rc=$?
  echo "== seed $NAME check $id rc=$rc :: $(echo "$out" | grep "^\[$id" | cut -c1-150)"
  echo "$out" | grep -E "^  violation|^HARNESS|^UNREPRO" | cut -c1-330 | head -3
done
git -C /repo worktree remove --force $WT; git -C /repo worktree prune; rm -rf /tmp/ev_seed_$NAME
