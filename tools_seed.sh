#!/bin/bash
# dev helper: tools_seed.sh <seed-dir> <ID> [<ID> ...]
# applies seeded/<dir>/patch.diff to /repo, runs the quick checks named, reverts.
D=$1; shift
cd /repo || exit 9
if [ -n "$(git status --porcelain)" ]; then echo "/repo not clean"; exit 9; fi
git apply "$D/patch.diff" || { echo "patch does not apply"; exit 9; }
for id in "$@"; do
  out=$(cd /verif && ./run.sh $id quick 2>&1)
  rc=$?
  echo "== $id rc=$rc :: $(echo "$out" | grep "^\[$id" | cut -c1-160)"
  echo "$out" | grep -E "^  violation|^HARNESS|^UNREPRO|^KNOWN" | cut -c1-330 | head -4
done
git checkout -- . && git status --porcelain | head -3
