#!/bin/bash
# dev helper: tools_seed_verify.sh <PID> <name>   (worktree /tmp/wt_<PID>)
# confirms a seeded change independently and stores it under /verif/seeded/<name>/
PID=$1; NAME=${2:-$1-a}; WT=/tmp/wt_$PID; OUT=/verif/seeded/$NAME
cd $WT || exit 9
git diff -- src > /tmp/seed_$NAME.diff
[ -s /tmp/seed_$NAME.diff ] || { echo "no source change in $WT"; exit 9; }
echo "--- files: $(git diff --stat -- src | tail -1)"
T=$(PYTHONPATH=$WT/src /venv/bin/python -m pytest -q -p no:cacheprovider 2>&1 | tail -1); echo "tests with change: $T"
PYTHONPATH=$WT/src /venv/bin/python demo.py >/tmp/demo_with.txt 2>&1; RC1=$?
git stash -q -- src
PYTHONPATH=$WT/src /venv/bin/python demo.py >/tmp/demo_without.txt 2>&1; RC0=$?
git stash pop -q
echo "demo with change rc=$RC1 ; without rc=$RC0"
mkdir -p $OUT && cp /tmp/seed_$NAME.diff $OUT/patch.diff && cp demo.py $OUT/demo.py
echo "tests=$T demo_with=$RC1 demo_without=$RC0" > $OUT/confirm.txt
tail -3 /tmp/demo_with.txt
